#!/usr/bin/env python3
"""Write the prompt given to a seeding sub-agent: only the text of one property, a scratch worktree, and (optionally)
a hint at a kind of bug.  usage: seedprompt.py <Cxx> <worktree> [hint text]"""
import json
import os
import sys

HERE = os.path.dirname(os.path.dirname(os.path.abspath(__file__)))
pid, wt = sys.argv[1], sys.argv[2]
hint = sys.argv[3] if len(sys.argv) > 3 else ""
prop = [json.loads(l) for l in open(os.path.join(HERE, "properties.jsonl")) if l.strip()]
p = [x for x in prop if x["id"] == pid][0]
T = """You are helping test a verification framework for the open-source Python library `selfies` (SMILES <-> SELFIES molecular string translator). You have your own scratch git worktree of the library at {wt} (a checkout of the current HEAD). Work ONLY inside {wt}; do not read or touch /repo, /verif or any other directory.

Here is a semantic property of the library that is supposed to hold:

  Title: {title}
  Statement: {statement}
  Quantifier: {quant}
  Why ordinary tests cannot settle it: {why}

Your task: produce ONE realistic change (a plausible bug a developer could introduce: a refactor slip, an off-by-one, a wrong cache key, a dropped operand, a reordered statement ...) to the library source under {wt}/selfies that BREAKS this property while
  (a) the package still imports and the EXISTING test suite still passes unchanged: run it with
      cd {wt} && PYTHONPATH={wt} /venv/bin/python -m pytest -q -p no:cacheprovider --timeout=900 -q tests/test_selfies.py tests/test_selfies_utils.py tests/test_specific_cases.py
      and also the (slower, randomly sampled) dataset test with a reduced sample:
      cd {wt} && PYTHONPATH={wt} /venv/bin/python -m pytest -q -p no:cacheprovider --timeout=900 -q tests/test_on_datasets.py --dataset_samples 2000
      (two dataset files are empty in this checkout and fail on the unmodified tree too - test_path1 and test_path6 - ignore those two; test_path12 (hiv.csv) fails in roughly one run out of five on the UNMODIFIED tree as well, because of four phthalocyanine rows - if it fails, check that the failing row is one of those and fails identically without your change; every other test must pass with your change.)
      IMPORTANT: always run with PYTHONPATH={wt} so that the worktree's selfies is imported, and check `PYTHONPATH={wt} /venv/bin/python -c "import selfies; print(selfies.__file__)"` prints a path under {wt}.
  (b) the breakage needs something SPECIFIC to manifest - a particular unusual input, a multi-step sequence of API calls, a particular constraint table, two cooperating code sites that each look fine alone - NOT something ordinary use or the simplest example would expose at once. Prefer subtle over blatant. Do not simply delete functionality or special-case one literal input string.

Deliverables, all written into the directory {wt}/seed_out/ (create it):
  1. patch.diff  - output of `git -C {wt} diff -- selfies` (only library source changes; do not modify tests).
  2. demo.py     - a small standalone script (run as `PYTHONPATH=<tree> /venv/bin/python demo.py`) that exits 0 and prints PASS on the unmodified library and exits 1 and prints FAIL on the library with your change, by checking the property on the specific input(s)/sequence that expose it. It must judge the property itself (with its own small checker or RDKit), not compare against a recorded output of the unmodified library.
  3. notes.md    - 5-10 lines: what you changed, why the existing tests do not notice, what exactly is needed for it to manifest, and the commands you ran with their results (test summary lines; demo output before and after).
Verify (a) and the demo in both states yourself before finishing: switch between unmodified and modified source ONLY with `git -C {wt} apply -R seed_out/patch.diff` / `git -C {wt} apply seed_out/patch.diff` (NEVER use `git stash`: the stash is shared with other worktrees of this repository that other people are using right now). Leave the worktree WITH your change applied and seed_out/ filled in. Keep the change small (a few lines). Do not install anything; there is no network.
{hint}Keep your own test runs light: other jobs share this machine."""
h = ""
if hint:
    h = ("\nTo keep the set of changes diverse, please aim for this kind of change (or something equally subtle in the same spirit): "
         + hint + " Prefer changes whose effect needs a longer or more unusual input, or a particular sequence of calls, over ones the shortest inputs reveal. ")
print(T.format(wt=wt, title=p["title"], statement=p["statement"], quant=p["quantifier"]["text"], why=p["why_tests_cant"], hint=h))
