#!/bin/bash
# usage: tools/seedcheck.sh <Cxx> <src-dir-with-patch.diff-demo.py-notes.md> [label]
# Verifies a seeded change in a scratch worktree of /repo HEAD (tests + demo both ways), stores it under
# /verif/seeded/<label>, then applies it to /repo, runs ./check <Cxx> --tier quick, and undoes it.
pid=$1; src=$2; label=${3:-$pid}
wt=/tmp/sv_$label
out=/verif/seeded/$label
mkdir -p $out
git -C /repo worktree remove --force $wt 2>/dev/null
git -C /repo worktree add -q --detach $wt HEAD || exit 8
cp $src/patch.diff $src/demo.py $out/ 2>/dev/null
cp $src/notes.md $out/agent_notes.md 2>/dev/null
log=$out/verify.log; : > $log
echo "== demo on unmodified tree" >> $log
(cd $wt && PYTHONPATH=$wt timeout 600 /venv/bin/python $out/demo.py > /tmp/demo0_$label.out 2>&1; echo "exit=$?" >> /tmp/demo0_$label.out); tail -3 /tmp/demo0_$label.out >> $log
if ! git -C $wt apply $out/patch.diff 2>>$log; then echo "PATCH DOES NOT APPLY" | tee -a $log; git -C /repo worktree remove --force $wt; exit 7; fi
echo "== fast tests with the change" >> $log
(cd $wt && PYTHONPATH=$wt timeout 900 /venv/bin/python -m pytest -q -p no:cacheprovider tests/test_selfies.py tests/test_selfies_utils.py tests/test_specific_cases.py 2>&1 | tail -3) >> $log
echo "== dataset tests with the change (2000 samples)" >> $log
(cd $wt && PYTHONPATH=$wt timeout 1800 /venv/bin/python -m pytest -q -p no:cacheprovider tests/test_on_datasets.py --dataset_samples 2000 2>&1 | tail -5) >> $log
echo "== demo with the change" >> $log
(cd $wt && PYTHONPATH=$wt timeout 600 /venv/bin/python $out/demo.py > /tmp/demo1_$label.out 2>&1; echo "exit=$?" >> /tmp/demo1_$label.out); tail -3 /tmp/demo1_$label.out >> $log
echo "== ./check $pid --tier quick against the tree with the change (VERIF_REPO=$wt; /repo itself is not touched)" >> $log
cp /verif/evidence/$pid.json /tmp/ev_$pid.bak 2>/dev/null
(cd /verif && VERIF_REPO=$wt timeout 1800 ./check $pid --tier quick ${SEED_BUDGET:+--budget $SEED_BUDGET} 2>&1 | grep -v WARNING | grep -E "VIOLATION|sig=|RESULT|HARNESS|KNOWN" | cut -c1-400; echo "check_exit=${PIPESTATUS[0]}") >> $log
cp /tmp/ev_$pid.bak /verif/evidence/$pid.json 2>/dev/null
git -C /repo worktree remove --force $wt
cat $log | cut -c1-300
