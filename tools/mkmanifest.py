#!/usr/bin/env python3
"""Regenerate MANIFEST.json from the table below (development helper)."""
import json, os
HERE = os.path.dirname(os.path.dirname(os.path.abspath(__file__)))
props = [json.loads(l)["id"] for l in open(os.path.join(HERE, "properties.jsonl")) if l.strip()]

T = "symbolic execution of the real Python modules (pathsym proxies over z3; inputs, table entries, flags and histories are solver variables), bounded; per-path unsat queries; models replayed on the pristine package"
NOTE = "Trusted: z3 (cross-checked on sampled queries by z3 4.8.12 and cvc5 1.0), CPython, the pathsym proxies and three AST rewrites (validated on every run against the pristine package on 2184 calls), the independent oracles in vf/ (O-READ validated against RDKit on 26k strings; O-DERIV reproduces the 65 pinned examples). Bounds (alphabets, N, K, capacity range 0..9) are listed per part in the evidence file; everything longer or outside the alphabets is outside the claim."


def C(text, ref, technique=T, note=NOTE, category="model_checking"):
    return dict(category=category, text=text, design_ref=ref, note=note, technique=technique)


CLAIMED = {
 "C01": C("Step lemmas over unbounded integers on the real next_*_state functions, on one iteration of _form_rings_bilocally from an arbitrary pre-state and on one iteration of _derive_mol_from_symbols from an arbitrary loop-head state with the recursive call replaced by its contract (an induction step: counts never exceed capacities and the state never promises more than the current atom has free); ring-label allocation with up to 120/400 earlier rings; mol_to_smiles on solver-chosen ring-bond sets over two fragments; and every string of N symbols (A_core N<=6/8, two-element alphabet with '.' N<=3/4) under every table with capacities 0..9: the real decoder's output is read by an independent SMILES reader and the valence inequality is an unsat query over the table variables; RDKit clause on concrete outputs. Known finding %100 reported as KNOWN-FINDING. Bounded model checking plus inductive step lemmas; the composition of the lemmas into all lengths is an argument in DESIGN.md, not a solver verdict.", "6/C01"),
 "C02": C("Differential check on the same symbolic path: the real decoder (output read back by O-READ) against O-DERIV, an independent executable rendering of derivation.rst, for every string of N symbols over four alphabets (grammar, stereo/isotope, capacity-0 and out-of-grammar symbols, fragments and [nop]) and every table 0..9: atoms, bonds, orders, stereo marks, written neighbour order, DecoderError iff the derivation reaches a symbol outside the grammar; plus state-function equalities, the index-reading lemma (also with fewer symbols than requested) and the ring-placement step lemma (ring bonds first, in formation order) with decoder-level witnesses.", "6/C02"),
 "C03": C("Real encoder(strict=True) then decoder under the same table for every string of N SMILES tokens and every combination of slot alternatives in fourteen spelling templates (branch order, ring labels, bracket spellings, label order on shared atoms, explicit aromatic bonds, 2-5 components, ring spans needing 2-3 index symbols), and for every molecule skeleton of 5-6(/7) atoms in every writing order (M-SKEL: the solver chooses the spanning tree and the ring bonds), relaxed table, presets, and a free table; input and output are compared atom by atom and bond by bond by an independent reader, aromatic bonds against an independent Kekule test.", "6/C03"),
 "C04": C("Same pipeline on 14 stereo templates (chiral centres opening/closing rings in every label order, ring digit between branches, implicit H, cis/trans marks on chain and on either end of ring closures) uniform stereo token strings, and every skeleton of 5(/6) atoms in every writing order with one chiral centre at every possible atom; handedness judged by permutation parity of written neighbour sequences, marks per bond end.", "6/C04"),
 "C05": C("encoder(strict=True) on aromatic token strings, 5/6(/7)-ring and fused-system templates with every atom kind a slot, and 20 (+C60) systems respelled from every start atom: accepted outputs must give each standard-kind atom exactly its pi need and at most one double bond, rejections must not be kekulizable by an independent matching oracle, acceptance must not depend on the spelling; every aromatic skeleton of 4-6(/8) atoms a SMILES can spell (spanning tree, ring bonds and ring-bond symbols chosen by the solver) through encoder and decoder; find_perfect_matching on every labelled graph with <=6/8 nodes and degree <=3 against brute force (edges are solver variables).", "6/C05"),
 "C06": C("strict=False then strict=True on the same path with the table symbolic: strict raises iff the independent bond count exceeds the capacity (solver-decided over nine table keys), same string otherwise, and no branch condition of the strict=False call mentions a table variable; on non-aromatic and on kekulizable aromatic inputs, including every skeleton of 4(/5) atoms with single/double/triple tree and ring bonds; plus a table change through the real setter between two strict calls (tables A and B symbolic).", "6/C06"),
 "C07": C("Real set_semantic_constraints with key spellings and free values: accepted => alphabet equals the described set (as a formula over the values) and every symbol decodes; strings of N<=4/6 symbols assumed to lie in the robust alphabet of a free table decode without error and obey it; after a rejected update, and after a second accepted table handed over as a fresh dict, as the same dict edited in place or as an equal dict, alphabet and strings follow the table in force.", "6/C07"),
 "C08": C("Every string of N symbols over grammar, legacy and malformed symbols, every string of N characters over 16 characters, symbol cells mixed with stray brackets, and grammar symbols under a free table, with compatible and attribute as free booleans: only DecoderError may escape, table and presets unchanged, paths end within a decision budget; also decode / table change / decode again with H-bearing symbols.", "6/C08"),
 "C09": C("Every string of N<=3/4 characters over 32 characters and N<=3/5 SMILES tokens with strict and attribute free: and aromatic ring templates (kekulizable or not): only EncoderError may escape.", "6/C09"),
 "C10": C("encoder, decoder, encoder again on bracket atoms with every field a slot, C03's sets, C04's stereo templates, every skeleton of 5(-7) atoms in every writing order and a free table: output well formed, decodable, identical after re-encoding, every atom symbol in the independently computed standard spelling; also after a table change between a failed decode and the round trip. Known finding (ring digit after a branch) reported as KNOWN-FINDING.", "6/C10"),
 "C11": C("Symbolic histories of K<=2/3 API calls (table values free, including rejected ones) followed by decoder(x) with x free and encoder(s, strict=False): results equal those of the same path with fresh caches and the documented table; models are replayed against a freshly imported package.", "6/C11"),
 "C12": C("Symbolic histories of K<=3/4 configuration calls over nine operation kinds (incl. caller-side edits of passed and returned objects and re-submitting the same dict) with observation after every call: get equals the last accepted table (solver-decided), presets unchanged, returned objects private, alphabet derivable from the table, translation unchanged by rejected calls. Known finding (cached alphabet handed out) reported as KNOWN-FINDING.", "6/C12"),
 "C13": C("decoder(x) versus decoder(x with every [nop] deleted) on the same path for every string of N<=5/7 symbols over A_core + [nop] + '.', table, attribute and compatible free; a 20-atom chain ending inside a 1-3 symbol index with [nop] among the last symbols; padding through selfies_to_encoding/encoding_to_selfies with a free pad length.", "6/C13"),
 "C14": C("CrossHair confirms five contracts (split/join, len, items, alphabet of two and of three strings) over all paths for arbitrary Unicode strings of length <=8; pathsym repeats split/join/len on well-formed strings built structurally with symbolic bodies and checks that encoder outputs are well formed and consumed token for token by the decoder; get_alphabet_from_selfies on collections of 3/4 strings (empty, one or two symbols; list or one-shot iterator).", "6/C14",
          technique="CrossHair 0.0.110 (symbolic execution of the real functions with z3, 'Confirmed over all paths') + pathsym symbolic execution; counterexamples replayed on the pristine package"),
 "C15": C("selfies_to_encoding / encoding_to_selfies / batch functions with the vocabulary bijection (2n of n!), the string (<=3/4 symbols over three vocabularies), the pad length and enc_type symbolic: lengths, entries, one-hot rows, both inverse directions, error clauses, batch = element-wise, and two vocabularies of different sizes used one after the other.", "6/C15"),
 "C16": C("get_selfies_from_index / get_index_from_selfies with n symbolic below 16^3 (16^4 thorough), _read_index_from_selfies with 1-3 requested and 0-3 available free symbols, and ring target / branch extent through selfies.decoder with free (also truncated) indices, against the documented digit table.", "6/C16"),
 "C17": C("decoder and encoder with and without attribute on every string of N symbols / tokens and on templates with nested branches, rings and several fragments and (encoder) on every skeleton of 5(/6) atoms in every writing order: same translation, every entry's token at the reported output index, every contributing token equal to the (still symbolic) input symbol at the reported position, every atom attributed to its creator; also outputs with ten or more ring closures (two-character labels).", "6/C17"),
 "C18": C("decoder(x, compatible=True) versus decoder(independently modernised x) versus decoder(x) on every string of N<=3/5 symbols over two legacy alphabets, all 21 legacy branch/ring symbols after a chain and at a high state, and several fragments mixing modern and legacy symbols.", "6/C18"),
}
NA = {
 "C19": "quantifies over bytecode-level thread interleavings; neither pathsym nor CrossHair can make the CPython scheduler symbolic and no Python-bytecode-to-SMT front end exists in the sandbox; a hand model of the interleavings would not be the real code (DESIGN.md 6/C19)",
}

GENERIC = dict(category="model_checking",
   text="Bounded symbolic execution (pathsym + z3) of the real selfies code: inputs, constraint-table entries and flags are solver variables over the alphabets and ranges listed in the evidence; every path's assertion is an unsat query; models are replayed on the pristine package before being reported.",
   design_ref="6", note="Trusted: z3, CPython, the pathsym proxies and AST rewrites, the independent oracles in vf/; bounds as listed in the evidence file.",
   technique="symbolic execution of the real Python code with z3 (bounded), counterexample replay")
for p in props:
    if p not in CLAIMED and p not in NA and os.path.exists(os.path.join(HERE, "vf", "props", p.lower() + ".py")):
        CLAIMED[p] = dict(GENERIC, design_ref="6/" + p)
checks = []
for p in props:
    if p in CLAIMED:
        c = CLAIMED[p]
        checks.append({
            "property_id": p,
            "quick_cmd": "./check %s --tier quick" % p,
            "thorough_cmd": "./check %s --tier thorough" % p,
            "evidence_file": "evidence/%s.json" % p,
            "replay_cmd_template": "./check %s --replay {path}" % p,
            "engine": "pathsym",
            "level_claimed": {"category": c["category"], "text": c["text"], "design_ref": c["design_ref"]},
            "level_note": c["note"],
            "technique": c["technique"],
        })
na = [{"property_id": p, "reason": NA.get(p, "check not built yet (work in progress)")} for p in props if p not in CLAIMED]
m = {
 "version": 1,
 "setup_cmd": "./setup.sh",
 "hooks": {"guard": "SELFIES_VERIF", "enable": "no source hooks are needed: checks load /repo/selfies from the working tree through an import hook (vf/symstr.py) and read state through module attributes; SELFIES_VERIF is unused",
           "baseline_off_cmd": "cd /repo && /venv/bin/python -m pytest -ra -q -p no:cacheprovider --timeout=900 --continue-on-collection-errors",
           "source_commits": [], "add_only": True},
 "engines": [
   {"name": "pathsym", "path": "vf/engine.py", "serves_properties": sorted(CLAIMED),
    "kind_free_text": "dynamic symbolic executor for the real selfies modules: proxy values (SymInt/SymBool/SymTok/SymStr) over z3, depth-first path exploration by re-execution, 16 forked workers; models replayed on the pristine package by vf/replay.py"},
   {"name": "crosshair", "path": "vf/xhair.py", "serves_properties": [p for p in ("C01", "C02", "C14") if p in CLAIMED],
    "kind_free_text": "CrossHair 0.0.110 on contract files (vf/xh) for the integer state functions (unbounded ints; C01, C02) and the tokenisation utilities (arbitrary Unicode, len <= 8; C14)"}],
 "checks": checks,
 "notes": "exit 0 = held on everything explored (KNOWN-FINDING lines for listed findings); 1 = replayed unlisted violation; 2 = harness error / inconclusive",
 "not_applicable": na,
}
json.dump(m, open(os.path.join(HERE, "MANIFEST.json"), "w"), indent=1)
print("claimed", sorted(CLAIMED), "na", len(na))
