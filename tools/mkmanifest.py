#!/usr/bin/env python3
"""Regenerate MANIFEST.json from the table below (development helper)."""
import json, os
HERE = os.path.dirname(os.path.dirname(os.path.abspath(__file__)))
props = [json.loads(l)["id"] for l in open(os.path.join(HERE, "properties.jsonl")) if l.strip()]

CLAIMED = {
 "C16": dict(
   category="model_checking",
   text="Symbolic execution (pathsym + z3) of the real get_selfies_from_index / get_index_from_selfies / _read_index_from_selfies with the integer n and the index tokens as solver variables: every n below 16^3 (thorough 16^5) and every tuple of 1-3 tokens over the sixteen index symbols plus non-index symbols and 'missing' is decided per path by an unsat query against the documented digit table; ring target and branch extent are checked end to end through selfies.decoder with free index tokens. Bounded by n and by the token alphabet; exhaustive inside the bound.",
   design_ref="6/C16",
   note="Trusted: z3, CPython, the pathsym proxies and the str.format/join AST rewrite; the documented digit order is transcribed in vf/docs.py; default table and a fixed carbon chain in the end-to-end part.",
   technique="symbolic execution of the real Python functions with z3 (bounded, per-path unsat queries), counterexamples replayed on the pristine package"),
}
NA = {
 "C19": "quantifies over bytecode-level thread interleavings; neither pathsym nor CrossHair can make the CPython scheduler symbolic and no Python-bytecode-to-SMT front end exists in the sandbox; a hand model of the interleavings would not be the real code (DESIGN.md 6/C19)",
}

GENERIC = dict(category="model_checking",
   text="Bounded symbolic execution (pathsym + z3) of the real selfies code: inputs, constraint-table entries and flags are solver variables over the alphabets and ranges listed in the evidence; every path's assertion is an unsat query; models are replayed on the pristine package before being reported.",
   design_ref="6", note="Trusted: z3, CPython, the pathsym proxies and AST rewrites, the independent oracles in vf/; bounds as listed in the evidence file.",
   technique="symbolic execution of the real Python code with z3 (bounded), counterexample replay")
for p in props:
    if p not in CLAIMED and p not in NA and os.path.exists(os.path.join(HERE, "vf", "props", p.lower() + ".py")):
        CLAIMED[p] = dict(GENERIC, design_ref="6/" + p)
checks = []
for p in props:
    if p in CLAIMED:
        c = CLAIMED[p]
        checks.append({
            "property_id": p,
            "quick_cmd": "./check %s --tier quick" % p,
            "thorough_cmd": "./check %s --tier thorough" % p,
            "evidence_file": "evidence/%s.json" % p,
            "replay_cmd_template": "./check %s --replay {path}" % p,
            "engine": "pathsym",
            "level_claimed": {"category": c["category"], "text": c["text"], "design_ref": c["design_ref"]},
            "level_note": c["note"],
            "technique": c["technique"],
        })
na = [{"property_id": p, "reason": NA.get(p, "check not built yet (work in progress)")} for p in props if p not in CLAIMED]
m = {
 "version": 1,
 "setup_cmd": "./setup.sh",
 "hooks": {"guard": "SELFIES_VERIF", "enable": "no source hooks are needed: checks load /repo/selfies from the working tree through an import hook (vf/symstr.py) and read state through module attributes; SELFIES_VERIF is unused",
           "baseline_off_cmd": "cd /repo && /venv/bin/python -m pytest -ra -q -p no:cacheprovider --timeout=900 --continue-on-collection-errors",
           "source_commits": [], "add_only": True},
 "engines": [
   {"name": "pathsym", "path": "vf/engine.py", "serves_properties": sorted(CLAIMED),
    "kind_free_text": "dynamic symbolic executor for the real selfies modules: proxy values (SymInt/SymBool/SymTok/SymStr) over z3, depth-first path exploration by re-execution, 16 forked workers; models replayed on the pristine package by vf/replay.py"},
   {"name": "crosshair", "path": "vf/xhair.py", "serves_properties": [p for p in ("C14", "C15", "C01") if p in CLAIMED],
    "kind_free_text": "CrossHair 0.0.110 on generated contract files for integer kernels and string utilities (arbitrary Unicode / unbounded ints)"}],
 "checks": checks,
 "notes": "exit 0 = held on everything explored (KNOWN-FINDING lines for listed findings); 1 = replayed unlisted violation; 2 = harness error / inconclusive",
 "not_applicable": na,
}
json.dump(m, open(os.path.join(HERE, "MANIFEST.json"), "w"), indent=1)
print("claimed", sorted(CLAIMED), "na", len(na))
