#!/bin/bash
# usage: tools/refcheck.sh <src-dir-with-patch.diff-notes.md> <label> [budget]
# A behaviour-preserving refactoring: every quick check must stay silent on it (exit 0, no VIOLATION, no HARNESS-ERROR).
# Runs the 18 quick checks against a scratch copy of /repo HEAD with the patch applied (VERIF_REPO; /repo is not touched),
# stores patch, notes and the per-check outcome under /verif/refactorings/<label>/.
src=$1; label=$2; budget=$3
wt=/tmp/rf_$label
out=/verif/refactorings/$label
mkdir -p $out
rm -rf $wt; mkdir -p $wt
git -C /repo archive HEAD | tar -x -C $wt 2>/dev/null
cp $src/patch.diff $out/; cp $src/notes.md $out/agent_notes.md 2>/dev/null
if ! patch -p1 -s -d $wt -i $out/patch.diff; then echo "PATCH DOES NOT APPLY"; rm -rf $wt; exit 7; fi
log=$out/checks.log; [ -n "$CHECKS" ] && log=$out/checks_rerun_after_repairs.log; : > $log
echo "== fast tests with the refactoring" >> $log
(cd $wt && PYTHONPATH=$wt timeout 900 /venv/bin/python -m pytest -q -p no:cacheprovider tests/test_selfies.py tests/test_selfies_utils.py tests/test_specific_cases.py 2>&1 | tail -2) >> $log
mkdir -p /tmp/rf_ev_$label; cp /verif/evidence/*.json /tmp/rf_ev_$label/
for p in ${CHECKS:-C01 C02 C03 C04 C05 C06 C07 C08 C09 C10 C11 C12 C13 C14 C15 C16 C17 C18}; do
  (cd /verif && VERIF_REPO=$wt timeout 2400 ./check $p --tier quick ${budget:+--budget $budget} > /tmp/rf_$label.$p.out 2>&1; echo "$p exit=$?" >> $log)
  grep -E "VIOLATION|sig=|HARNESS|RESULT" /tmp/rf_$label.$p.out | cut -c1-400 >> $log
  python3 - $p >> $log <<'PY'
import json, sys
e = json.load(open("/verif/evidence/%s.json" % sys.argv[1]))
sk = [p["name"][:80] + " :: " + p.get("claim", "")[:160] for p in e["coverage"]["parts"] if p.get("skipped")]
if sk:
    print("   skipped (private API changed):")
    for x in sk: print("     ", x)
if e["coverage"].get("mtok_fidelity_probe", {}).get("faithful") is False:
    print("   M-TOK fidelity probe: not faithful -> plain strings")
PY
  rm -f /tmp/rf_$label.$p.out
done
cp /tmp/rf_ev_$label/*.json /verif/evidence/; rm -rf /tmp/rf_ev_$label $wt
cat $log | cut -c1-260
