#!/usr/bin/env python3
"""(Re)run every seeded change against its check and write seeded/<id>/meta.json (development helper)."""
import json, os, subprocess, sys, time, re
HERE = os.path.dirname(os.path.dirname(os.path.abspath(__file__)))
INFO = {
 "C01": ("ring_log moved inside the per-fragment loop of mol_to_smiles: ring-closure labels are allocated per '.'-fragment", "at least two fragments, a ring bond that crosses the '.', and one more ring so that the per-fragment numbers differ (e.g. [C][C][C][Ring1][Ring1][C].[C][C][Ring1][Ring2])", True, "missed by the bounded string exploration (needs 10 symbols); caught after adding the writer step harness lemmas.writer_graphs (solver-chosen ring bonds over two chain fragments, also across fragments)"),
 "C02": ("_read_index_from_selfies breaks at the end of the string instead of padding the missing low-order digits with 0", "a [Ring2]/[Ring3] whose index is cut short by the end of the string, a non-zero digit and enough atoms before it (e.g. 20 x [C] + [=Ring2][Ring1])", True, "missed at N<=4 symbols; caught after adding the index-reading lemma (0-3 of 1-3 symbols available) and the truncated-index differential (20-atom chain + ring/branch symbol + fewer index symbols than requested)"),
 "C03": ("MolecularGraph._roots became a set: '.'-components are emitted in int-set iteration order", "three or more components whose root atom indices are out of order modulo 8 (e.g. CCCC.CCC.C.C)", True, "missed by the templates with <= 3 one-atom components; caught after adding the multi-component template (3-5 components of different sizes)"),
 "C04": ("inversion-count loop in _should_invert_chirality stops one short: pairs with the last out-bond are never counted", "a chiral atom with ring bonds and no chain continuation, opening one ring before closing another, or with a ring digit after a branch (e.g. F[C@H]1C[C@H](F)1)", False, ""),
 "C05": ("extra visited-check in _find_augmenting_path prunes edges that close an odd cycle", "a non-alternant system (corannulene, C60) in an atom order where the greedy pre-matching leaves atoms unmatched", False, ""),
 "C06": ("strict check reads capacities through a third lru_cache in encoder.py that set_semantic_constraints does not clear", "strict-encode an atom kind under table A, switch to table B with another capacity for that kind, strict-encode again", True, "first run ended with a harness error (cache outside the reset list made replays non-deterministic); caught after the per-path reset was made generic (every functools cache in selfies.*) and the 'table change between two strict calls' part was added to C06"),
 "C07": ("get_bonding_capacity uses `table.get(key) or table['?']`: a listed capacity 0 falls through to '?'", "a table that gives capacity 0 to an element whose neutral symbol is an index symbol (C, N, O, S, P) and a '?' > 0", True, "missed because part ii wrongly assumed order <= capacity for index symbols too; caught after the assumption was corrected (index symbols are in every robust alphabet)"),
 "C08": ("add_attribution call dedented out of `if state == 0:`: `o` unbound when a capacity-0 atom is the first atom of a branch", "a zero-capacity atom symbol ([CH4], or [NH1] under N=1 ...) as first atom inside a branch", True, "missed (default table only, no capacity-0 atom in the token alphabet at N<=3); caught after adding the free-table part (capacities of C, N, ? symbolic, [NH1]/[CH4] in the alphabet, N<=4)"),
 "C09": ("ring log keyed by int(label): non-ASCII digits accepted by str.isdigit() make int() raise ValueError", "a non-ASCII digit in ring-label position (e.g. 'C²')", False, ""),
 "C10": ("decoder ring cache built with itertools.permutations: [//RingN] and [\\\\RingN] are no longer accepted", "a ring-closure single bond with the same stereo mark at both digits (e.g. C/1=C/CC/1)", True, "missed (no stereo marks on ring closures among C10's inputs); caught after C04's stereo templates were added to C10"),
 "C11": ("process_atom_symbol checks 'capacity - H >= 0' only on a cache miss", "a symbol with explicit H decoded under a loose table, then the table tightened, then the symbol decoded again (e.g. [NH2] under N=5 then N=1)", True, "missed (no H-bearing symbol in the history's alphabet); caught after [NH2]/[CH3] were added to the decoded alphabet and to the warm-up strings"),
 "C12": ("the '?' entry is skipped before its capacity is validated", "an update whose only defect is an invalid capacity under '?'", False, ""),
 "C13": ("[nop] filter dropped in the compatible=True arm of _tokenize_selfies", "compatible=True and a [nop] before the derivation has terminated", True, "missed (compatible was not a free flag in C13); caught after compatible became a free boolean of the differential"),
 "C16": ("same change as C02's seed, found independently: truncated index loses place value", "a string ending inside the index of [Ring2]/[Ring3]", True, "first run ended with a harness error (the unit harness saw it, the concrete oracle did not go through the decoder); caught after truncated indices were added to the end-to-end part and the oracle replays them through selfies.decoder"),
 "C17": ("decoder's per-fragment attribution offset advances by len_selfies(fragment), which counts [nop]", "attribute=True, several fragments, a [nop] in a fragment that is not the last", False, ""),
 "C18": ("memo cache in modernize_symbol keyed on the atom body without its bond prefix", "the same [...expl] atom body with two different bond prefixes in one process", False, ""),
 "C01_2": ("get_bonding_capacity uses `table.get(key) or table['?']` (same slip as C07's seed, found independently)", "an accepted table with a capacity-0 entry and an input using that atom", False, ""),
 "C02_2": ("rings_made counters incremented also when a ring symbol merges into an existing bond; _add_bond_at_loc made tolerant of the resulting position", "a ring symbol on an already bonded pair followed by a real ring bond at one of the two atoms, which also has a branch", True, "missed at N<=4 (needs 8 symbols); caught after adding the ring-placement step lemma (1-3 solver-chosen ring candidates on a chain with a branch; out-bond order must be rings first in formation order) with a decoder-level witness"),
 "C03_2": ("implicit-aromatic test for ring closures looks only at the opening label's bond symbol", "a fusion bond between aromatic atoms written with '-' on the closing label only (c1cc2ncoc-2cc1)", True, "caught after the fused-closure templates (bond symbol on opening / closing label) were added to C03"),
 "C04_2": ("add_ring_bond flags atom a twice instead of a and b: the closing atom is never considered for inversion", "a chiral ring-closing atom whose closure digit is written after an odd number of branches", False, ""),
 "C05_2": ("_prune_from_ds bracket branch returns `free_electrons != 1`", "a pyridine-type n/p/as written as a bracket atom without H or charge ([n], [15n])", True, "caught after [n] (and [c], p, s(=O) in the thorough tier) were added to the ring-atom kinds"),
 "C10_2": ("the 'too many H' rejection is cached per symbol text and survives a table change", "a failed decode of an over-hydrogenated symbol, then a table that makes it legal, then an encode of that atom", True, "missed (no table change in C10); caught after the 'decode under A, set B, round trip under B' part was added"),
 "C14_2": ("split_selfies refreshes its dot index before advancing: only the first dot of a string is recognised", "a well-formed string with at least two dots", False, ""),
 "C15_2": ("one-hot rows cached by index only, not by vocabulary size", "two vocabularies of different sizes used in one process", True, "missed (one vocabulary per path, and the per-path reset restores module state); caught after the 'two vocabularies in sequence' part was added"),
 "C06_3": ("`table.get(key) or table['?']` in get_bonding_capacity (third independent occurrence of this slip)", "a capacity-0 entry, strict=True", False, ""),
 "C07_3": ("charge validation `int(charge) > 0` accepts leading zeros", "a key such as 'C+01'", False, ""),
 "C08_3": ("'too many H' check of process_atom_symbol runs only on a cache miss", "decode [NH2]-type symbol under a loose table, tighten the table, decode again: AttributeError / ValueError escape", True, "missed (no table change in C08); caught after the 'decode under A, set B, decode again' part with H-bearing symbols was added"),
 "C09_3": ("`adj != node` instead of `adj != root` in _find_augmenting_path: empty path, IndexError escapes", "an aromatic system with an odd ring and no kekulization (c1cc1, c1cccc1)", True, "missed (needs 5-7 tokens); caught after small aromatic ring templates were added to C09"),
 "C11_3": ("get_preset_constraints returns the preset dict itself", "table chosen by preset name (or never set), a decode, the caller mutates the returned preset dict, another decode", True, "missed (no preset_mutate operation in C11's histories); caught after it was added"),
 "C12_3": ("custom table merged over the active table instead of replacing it", "a dict whose key set is not a superset of the active table's", False, ""),
 "C13_3": ("decoder tokenises the whole string once and cuts fragments on '.' tokens; a [nop] directly before a '.' glues the dot to the next symbol", "[nop] immediately followed by '.'", True, "missed: the rewritten decoder no longer calls selfies.split('.') and rejected the M-TOK input object on every path, so both sides of the differential failed alike (vacuous); caught after run_decoder re-examines any non-DecoderError exception on the plain string (M-TOK falls back to pinned strings)"),
 "C16_3": ("INDEX_CODE became a defaultdict and is indexed with []: reading an unknown symbol inserts it and the base len(INDEX_CODE) grows", "a multi-symbol index with a non-index symbol in a lower slot, or any earlier decode with a non-index symbol in an index slot", True, "first run ended with a harness error: the instrumented copy of INDEX_CODE lost the default factory and translator validation flagged the disagreement; caught after wrapped containers keep a defaultdict's factory"),
 "C17_3": ("writer tracks token end positions with a running counter that forgets the '%' of two-digit ring labels", "ten or more ring closures in the output", True, "missed (needs >= 10 rings); caught after the 'many rings' part (8-10 three-membered rings + free symbols) was added"),
 "C18_3": ("per-fragment fast path overwrites the compatible flag: the first fragment without legacy symbols switches modernisation off for the rest", "several fragments, a modern-only fragment before a legacy one", True, "first run ended with a harness error: `\"xpl\" in s` on the M-TOK fragment (a list) did not behave like a string; caught after fragments became string-like (TokFrag) and a multi-fragment alphabet was added to C18"),
 "C01_4": ("`table.get(key) or table['?']` once more (fourth independent occurrence)", "capacity-0 entry", False, ""),
 "C02_4": ("_derive_mol_from_symbols returns min(n_derived, max_derive): a nested branch that overruns its budget (its last in-budget symbol is a ring/branch symbol whose index lies past the budget) is under-counted", "three levels: chain, branch, nested branch ending in a ring/branch symbol; 8 symbols at least", True, "missed at N<=4 / 6; caught after the nested-branch template (atom, branch, index, nested branch/ring, index, free symbols) was added to C02"),
 "C04_4": ("_ring_bonds_to_selfies treats equal marks on both ends as 'no marks'", "a ring closure with the same / or \\ on both digits", False, ""),
 "C05_4": ("un-bracketed aromatic atoms are pruned only at their lowest valence", "aromatic s(=O) / p(=O)(R)", True, "missed in the quick tier (s(=O) was only among the thorough kinds, and O-KEK had no rule for S(IV)/P(V)); caught after s(=O) was added to the quick kinds and the rule was extended"),
 "C06_4": ("strict check examines only the most heavily bonded atom per (element, charge), ignoring explicit H", "an over-full H-bearing atom next to a legal atom of the same element and charge with at least as many bonds", False, ""),
 "C08_4": ("modernize_symbol: early exit for all-lower-case bodies replaces the aromatic check", "compatible=True and an aromatic legacy symbol containing an upper-case H ([nHexpl])", True, "missed ([nHexpl] was not among C08's malformed legacy symbols); caught after [nHexpl], [=c@@Hexpl], [cH1expl] were added"),
 "C09_4": ("has_bond no longer orders its arguments", "a ring digit opened inside a branch and closed on the branch's parent atom, both aromatic (c(c1)1)", True, "missed (no such closure among C09's inputs at N<=3); caught after ring-closure syntax templates (opened in a branch / closed on the parent, doubled and repeated closures) were added"),
 "C10_4": ("number of index symbols chosen with `index <= base ** 2`", "a ring span or branch length of exactly 256", True, "missed (spacers at 18 and 256 atoms did not hit Q = 256); caught after boundary templates Q = 14..17 and 254..257 for rings and branches were added (C16 part A catches the same slip at n = 256)"),
 "C12_4": ("validation split into a key pass and a value pass with the assignment in between", "a table whose only defect is a bad capacity", False, ""),
 "C14_4": ("split_selfies uses a regex whose '.' does not match newline", "a symbol whose text contains a newline", False, ""),
 "C15_4": ("missing-'.' test `not dot_index` is also true for index 0", "a vocabulary mapping '.' to 0 and a string containing '.'", False, ""),
 "C03_5": ("_form_rings_bilocally keeps a per-atom 'reserved' tally released by 1 per ring instead of by the ring order", "an atom that closes a ring with a double/triple bond and then opens another ring with its valence exactly used up (C1CCC(C=12)CCC2)", True, "missed (no multiple ring bond closing at an atom that opens another ring among the templates); caught after two such templates were added to C03"),
 "C04_5": ("inversion count only over adjacent pairs of the out-bond permutation", "a chiral atom with three ring bonds written as a rotation or reversal of the closing order", False, ""),
 "C07_5": ("set_semantic_constraints resets the live table and fills it key by key while validating", "accepted table A, then a rejected update, then use of alphabet / decoder", True, "missed (C07 had no rejected update between acceptance and use; C12 catches it); caught after part iii (accepted A, rejected update, alphabet and strings still follow A) was added to C07"),
 "C11_5": ("get_index_from_selfies uses INDEX_CODE.setdefault(c, 0): non-index symbols read in an index position are inserted and the base len(INDEX_CODE) grows", "an earlier decode with a non-index (or missing) symbol in an index position, then a decode with a two-symbol index", True, "missed (no multi-symbol index in the final decode, no such warm-up string); caught after the 'history, then a 24-atom chain with a free two-symbol index' part and the warm-up strings were added"),
 "C13_5": ("decoder's fragment offset for attribution advances by len_selfies(fragment), which counts [nop]", "attribute=True, several fragments, a [nop] in a non-final fragment", True, "missed: the M-TOK fragment object answered len_selfies' str.count differently from a string, for both sides alike; caught after fragments emulate str.count and the [nop]-filtered variant filters it too (plus a pre-flight fidelity probe of the M-TOK model that switches the whole run to plain strings when token lists and strings disagree)"),
 "C16_5": ("INDEX_CODE as defaultdict indexed with [] (as C16_3, found independently)", "non-index symbol in an index slot", False, ""),
 "C17_5": ("encoder's fragment offset assigned instead of accumulated", "attribute=True and three or more fragments", False, ""),
 "C18_5": ("charge parsing `len(s) * 1 if plus else -1`: runs of '-' all become -1", "legacy atoms with '--' / '---' charges ([O--expl])", False, ""),
 "C03_4": ("':' removed from SMILES_BOND_ORDERS (tokenizer still accepts it): explicit aromatic bonds are read as single bonds", "aromatic bonds spelled out with ':'", True, "missed (no ':' among C03's tokens and spellings; 'consistent single/double assignment' was only judged as 'at most one double bond per atom'); caught after ':' was added to the token alphabets and an explicit-aromatic-bond template, and the round-trip judge also applies O-KEK's Kekule-structure test"),
 "C01_6": ("SMILES writer's ring-number table reset per '.'-fragment", "a ring bond across two fragments plus different numbers of ring labels before its two ends", False, ""),
 "C02_6": ("[epsilon] treated as a no-op when the molecule is empty instead of when the state is X0", "[epsilon] as first effective symbol of a later '.'-fragment", True, "missed in the quick tier (needs atom . [epsilon] atom = 4 items, quick fragments part stops at 3); caught after a 'later fragment' level (atom '.' + 3 free symbols) was added; thorough fragments N>=4 catches it as well"),
 "C05_6": ("augmenting-path search skips neighbours already in the search tree (odd-cycle edges)", "an all-carbon odd ring fused into a larger system and an unlucky atom order (6 of 90 spellings of acenaphthylene)", False, ""),
 "C06_6": ("kekulize truncates the half-bond count after every bond instead of once per atom", "aromatic spelling, custom table putting a ring atom exactly one above capacity, atom not last of its ring", True, "missed (the 'iff' was only judged on non-aromatic inputs); caught after the iff was extended to kekulizable aromatic inputs of standard kinds (bond-order sum = sigma + H + O-KEK pi need) and two aromatic templates were added"),
 "C08_6": ("ring symbols attributed to their bonds; update_bond_order's early return yields None", "attribute=True and a ring symbol landing on an existing order-3 bond between atoms with free valence", False, ""),
 "C09_6": ("ring labels normalised with int()", "a non-decimal numeric character (superscript two) in ring-label position", False, ""),
 "C10_6": ("strict check skips atoms without bonds", "a lone atom with more H than its capacity ([C@H9], [NH4+] under N+1 = 3)", False, ""),
 "C12_6": ("presets built lazily; the call that builds one returns the stored object itself", "get_preset_constraints(name) as the first use of that preset in the process, then caller-side mutation", True, "harness error at first (exit 2, not a verdict: the harness read the private preset store for its expected values); now the expected presets are the documented tables (vf/docs.py), the per-path reset restores 'not built yet', and the replayer runs C12 histories on a freshly imported package; caught as C12:preset-changed"),
 "C14_6": ("get_alphabet_from_selfies joins the collection with '.' and splits once", "an empty string in an interior position of the collection, or two trailing empty strings", True, "missed (collections of at most two strings); caught after the three-string CrossHair contract and the E1 collection part (3 strings, each empty / one / two symbols, list or one-shot iterator) were added"),
 "C15_6": ("batch_flat_hot_to_selfies computes the row count from the first vector only", "a batch of flat vectors of different lengths", False, ""),
 "C04_7": ("inversion count skips pairs involving the last out-bond (loop bounds `range(last)` / `range(i + 1, last)`)", "a stereocentre that is the only atom of a branch (or first of a later component) with nothing but ring digits after it", False, ""),
 "C05_7": ("implicit-aromatic test for ring closures `bonds[1] is None`: a '-' or '=' written on one ring digit only is ignored between aromatic atoms", "non-benzenoid fused systems with a one-sided '-' closure (c12c(cc-1)cccc2), or pyrrole-type rings with such a closure", True, "missed (aromatic inputs had no one-sided bond symbol on a closure outside benzenoid fusions); caught after M-SKEL learnt to write ring-bond symbols on the opening label, the closing label or both and C05 got the 5-atom aromatic skeleton level with '-' / '='"),
 "C07_7": ("set_semantic_constraints returns early when the submitted dict equals the table in force, and stores the caller's dict itself", "set a dict, edit that same object in place, pass it again", True, "missed by C07 (no sequence of two accepted tables) and masked in C12 by the known aliasing finding (the concrete oracle stopped at the first problem); caught after C07 part iv (A, use, B as fresh dict / same object edited / equal dict), the history operation edit_and_reset in C11/C12, and the C12 oracle no longer lets the known finding end a history"),
 "C11_7": ("'too many Hs' test of process_atom_symbol only on a cache miss", "H-bearing symbol decoded under a loose table, table tightened below the H count, decoded again", False, ""),
 "C13_7": ("[nop] skipped where symbols are consumed; in _read_index_from_selfies a [nop] at the end of a fragment leaves both itself and None in the index list", "a long fragment that ends inside a 2/3-symbol index followed by [nop]", True, "missed (needs >= 18 atoms before the ring symbol for the extra factor 16 to change the target); caught after the part '20-atom chain + ring/branch symbol + 3 symbols among index symbols and [nop] at the end of the string / fragment'"),
 "C16_7": ("get_index_from_selfies in Horner form with `if c is None: break`", "a three-symbol index with two symbols missing at the end of the string", False, ""),
 "C17_7": ("ring-bond token's output index computed after the ring number is appended", "attribute=True and a ring closure that keeps a bond character", False, ""),
 "C18_7": ("modernize_symbol memoises [...expl] atoms keyed on the atom part but stores the prefixed result", "the same expl atom with two different bond prefixes in one process", False, ""),
 "C03_7": ("_make_ring_bonds reads the closure's bond order through an if/elif chain without a case for '#'", "a triple bond written on a ring-closure label (C#1CCCCCCC1)", False, ""),
}
only = sys.argv[1:]
for label in sorted(os.listdir(os.path.join(HERE, "seeded"))):
    d = os.path.join(HERE, "seeded", label)
    if not os.path.isdir(d) or (only and label not in only):
        continue
    pid = label[:3]
    ev = os.path.join(HERE, "evidence", pid + ".json")
    bak = open(ev).read() if os.path.exists(ev) else None
    wt = "/tmp/seedmeta_%s" % label
    subprocess.call(["rm", "-rf", wt])
    os.makedirs(wt)
    subprocess.check_call("git -C /repo archive HEAD | tar -x -C %s" % wt, shell=True)
    subprocess.check_call(["git", "apply", "--directory=" + wt.lstrip("/"), "--unsafe-paths", os.path.join(d, "patch.diff")], cwd="/") if False else \
        subprocess.check_call(["patch", "-p1", "-s", "-d", wt, "-i", os.path.join(d, "patch.diff")])
    t0 = time.time()
    try:
        p = subprocess.run(["./check", pid, "--tier", "quick"], cwd=HERE, capture_output=True, text=True, timeout=1800,
                           env=dict(os.environ, VERIF_REPO=wt))
    finally:
        subprocess.call(["rm", "-rf", wt])
        if bak is not None:
            open(ev, "w").write(bak)
    sigs = sorted(set(re.findall(r"sig=(\S+)", p.stdout)))
    known = sorted(set(re.findall(r"KNOWN-FINDING: property=\S+ sig=(\S+)", p.stdout)))
    info = INFO.get(label, ("", "", False, ""))
    log = open(os.path.join(d, "verify.log")).read() if os.path.exists(os.path.join(d, "verify.log")) else ""
    meta = {
        "property": pid, "change": info[0], "needs_to_manifest": info[1],
        "source": "independent sub-agent given only the property text and a scratch worktree",
        "verified": {"fast_tests_with_change": (re.findall(r"(\d+ passed[^\n]*)", log) or ["?"])[0],
                     "dataset_tests_with_change": (re.findall(r"(\d+ failed, \d+ passed[^\n]*)", log) or ["?"])[0] + " (test_path1/test_path6 are empty data files and fail on the unmodified tree too; test_path12 is a random-sample flake that also occurs unmodified)",
                     "demo_unmodified": "PASS (exit 0)" if "PASS" in log.split("== fast tests")[0] else "?",
                     "demo_with_change": "FAIL (exit 1)" if "exit=1" in log.split("== demo with the change")[-1] else "?"},
        "check_cmd": "git -C /repo apply seeded/%s/patch.diff && ./check %s --tier quick ; git -C /repo checkout -- .   (tools/seedmeta.py does the same on a scratch copy through VERIF_REPO)" % (label, pid),
        "check_exit": p.returncode, "check_wall_s": round(time.time() - t0, 1),
        "detected_signatures": [s for s in sigs if s not in known],
        "detected": p.returncode == 1,
        "initially_missed": info[2], "strengthening": info[3],
    }
    try:
        prev = json.load(open(os.path.join(d, "meta.json")))
    except Exception:  # noqa
        prev = {}
    for k in ("superseded", "breaks_property_on_current_tree", "detected_before_fix", "demo_with_change_on_current_tree", "patch_note"):
        if k in prev:
            meta[k] = prev[k]
    json.dump(meta, open(os.path.join(d, "meta.json"), "w"), indent=1)
    print(label, p.returncode, meta["detected_signatures"][:3], meta["check_wall_s"])
