#!/bin/bash
# Build the overlay interpreter used by every check. Offline: wheels come from /opt/veriftools/wheels.
set -e
cd "$(dirname "$0")"
if [ ! -x .venv/bin/python ] || ! .venv/bin/python -c "import z3" 2>/dev/null; then
  rm -rf .venv
  /venv/bin/python -m venv .venv
  echo "/venv/lib/python3.12/site-packages" > .venv/lib/python3.12/site-packages/_overlay.pth
  .venv/bin/pip install -q --no-index --find-links /opt/veriftools/wheels z3-solver crosshair-tool
fi
.venv/bin/python -c "import z3, rdkit; print('setup ok: z3', z3.get_version_string())"
mkdir -p out evidence
