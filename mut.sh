#!/bin/bash
# usage: ./mut.sh <file-in-repo> <python-regex-old> <new> <Cxx> [tier]   (development helper: apply a one-line mutant, run a check, restore)
f=$1; old=$2; new=$3; prop=$4; tier=${5:-quick}
cd /repo && git diff --quiet || { echo "repo dirty"; exit 9; }
python3 - "$f" "$old" "$new" <<'PY'
import sys,re
f,old,new=sys.argv[1:4]
s=open('/repo/'+f).read()
n=s.count(old)
if n!=1: print("pattern count",n); sys.exit(3)
open('/repo/'+f,'w').write(s.replace(old,new))
PY
rc=$?
cp /verif/evidence/$prop.json /tmp/ev_$prop.bak 2>/dev/null
if [ $rc -eq 0 ]; then (cd /verif && timeout 1800 ./check $prop --tier $tier | tail -5; echo "exit=${PIPESTATUS[0]}"); fi
cp /tmp/ev_$prop.bak /verif/evidence/$prop.json 2>/dev/null; rm -f /tmp/ev_$prop.bak
cd /repo && git checkout -- . 
