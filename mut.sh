#!/bin/bash
# usage: ./mut.sh <file-in-repo> <old-text> <new-text> <Cxx> [tier]
# development helper: applies a one-line mutant to a scratch COPY of /repo (so that /repo itself is never touched),
# points the check at it with VERIF_REPO, and removes the copy.  Evidence of the real tree is preserved.
f=$1; old=$2; new=$3; prop=$4; tier=${5:-quick}
wt=/tmp/mutrepo_$$
rm -rf $wt; mkdir -p $wt && (cd /repo && git archive HEAD | tar -x -C $wt) || exit 8
python3 - "$wt/$f" "$old" "$new" <<'PY'
import sys
f,old,new=sys.argv[1:4]
s=open(f).read()
n=s.count(old)
if n!=1: print("pattern count",n); sys.exit(3)
open(f,'w').write(s.replace(old,new))
PY
rc=$?
cp /verif/evidence/$prop.json /tmp/ev_$prop.$$.bak 2>/dev/null
if [ $rc -eq 0 ]; then (cd /verif && VERIF_REPO=$wt timeout 1800 ./check $prop --tier $tier | tail -5; echo "exit=${PIPESTATUS[0]}"); fi
cp /tmp/ev_$prop.$$.bak /verif/evidence/$prop.json 2>/dev/null; rm -f /tmp/ev_$prop.$$.bak
rm -rf $wt
