"""Shared encoder->decoder(->encoder) pipeline for C03, C04, C05, C10."""
import z3

from . import driver, engine, symstr, ench, dech, judge
from .ctx import table_model
from .oread import read_smiles
from .symstr import make_slots, model_value

RELAXED = {"H": 1, "F": 1, "Cl": 7, "Br": 7, "I": 7, "B": 3, "B+1": 2, "B-1": 4, "O": 2, "O+1": 3, "O-1": 1,
           "N": 5, "N+1": 4, "N-1": 2, "C": 4, "C+1": 3, "C-1": 3, "P": 7, "P+1": 6, "P-1": 8,
           "S": 6, "S+1": 5, "S-1": 5, "?": 12}


def pipeline(ctx, eng, col, s, table, strict=True, reencode=False):
    """returns dict(smi, e, d, e2, status) with concrete strings; status in ok / rejected / decode-fails / exc"""
    ctx.reset(table)
    r = ench.run_encoder(ctx, s, strict=strict)
    smi = str(s)  # pin whatever the encoder left free
    out = {"smi": smi, "status": "ok"}
    if r[0] == "EncoderError":
        out["status"] = "rejected"
        return out
    if r[0] == "exc":
        out["status"] = "exc"
        out["exc"] = r[1]
        return out
    out["e"] = e = str(r[1])
    d = dech.run_decoder(ctx, e)
    if d[0] != "ok":
        out["status"] = "decode-fails"
        out["d_err"] = d
        return out
    out["d"] = str(d[1])
    if reencode:
        r2 = ench.run_encoder(ctx, out["d"], strict=strict)
        out["e2"] = str(r2[1]) if r2[0] == "ok" else (r2[0],)
    return out


def explore(rep, ctx, name, mk_input, judge_fn, bounds, time_limit, table_mode="relaxed", keys=("C", "N", "O", "?"),
            strict=True, reencode=False, prop=None, kind=None):
    """judge_fn(res) -> None | text describing a problem (all strings concrete)"""
    def path(eng, col):
        if table_mode == "free":
            table = ctx.sym_table(list(keys))
        elif table_mode == "relaxed":
            table = dict(RELAXED)
        else:
            table = dict(ctx._presets0[table_mode])
        s = mk_input()
        res = pipeline(ctx, eng, col, s, table, strict=strict, reencode=reencode)
        col.count(res["status"])
        if res["status"] == "exc":
            col.error("encoder raised %r on %r inside the harness" % (res["exc"], res["smi"]))
            return
        if res["status"] == "rejected":
            col.nontrivial(("rejected", res["smi"]))
            pb = judge_fn(res)
        else:
            col.nontrivial((res["smi"], res.get("d")))
            col.sample({"smiles": res["smi"], "selfies": res.get("e"), "decoded": res.get("d")})
            pb = judge_fn(res)
        if pb:
            m = eng.current_model()
            case = {"prop": prop or rep.pid, "kind": kind, "smiles": res["smi"],
                    "table": table_model(m, table) if table_mode == "free" else (dict(RELAXED) if table_mode == "relaxed" else table_mode)}
            col.candidate(case)
    res = driver.explore_parallel(path, time_limit)
    b = dict(bounds)
    b["table"] = {"free": "keys %s free in 0..9" % (list(keys),), "relaxed": "the relaxed table of tests/test_on_datasets.py"}.get(table_mode, table_mode)
    rep.add_part(name, res, b)
    return res
