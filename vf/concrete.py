"""Concrete oracles, evaluated on the pristine selfies package (no proxies).
Every symbolic harness turns a solver model into a `case` dict; the case is a
violation only if the oracle here says so.  No z3 imports in this module."""
import re
import signal
import traceback
import warnings

import selfies as sf

from . import oread, judge
from .judge import _wf_split, selfies_roles, _atom_text_of_symbol, compare_mols, _std_symbol_of_atom, _tok

from .docs import DOC_INDEX


def ok(detail=""):
    return {"violation": False, "detail": detail}


def bad(sig, detail):
    return {"violation": True, "sig": sig, "detail": detail}


class _Timeout(BaseException):
    pass


def _alarm(sec):
    def h(signum, frame):
        raise _Timeout()
    signal.signal(signal.SIGALRM, h)
    signal.alarm(sec)


def _where(ex):
    """innermost selfies function in the traceback of ex"""
    tb = traceback.extract_tb(ex.__traceback__)
    for fr in reversed(tb):
        if "/selfies/" in fr.filename:
            return "%s.%s" % (fr.filename.rsplit("/", 1)[-1][:-3], fr.name)
    return tb[-1].name if tb else "?"


def set_table(t):
    """returns False when the library rejects the table (then the case is outside the property)"""
    try:
        if t is None:
            sf.set_semantic_constraints("default")
        elif isinstance(t, str):
            sf.set_semantic_constraints(t)
        else:
            sf.set_semantic_constraints(dict(t))
        return True
    except ValueError:
        return False


def reset_table():
    sf.set_semantic_constraints("default")


# ---------------------------------------------------------------------------
# C01


def smiles_faults(out, table, pid="C01"):
    """syntax + valence judgement of a decoder output"""
    if out == "":
        return None
    mol = oread.read_smiles(out)
    if mol.faults:
        kind = mol.faults[0][0]
        if re.search(r"%\d\d\d", out) and out.count("%") >= 180:
            return bad("%s:ring-label>99" % pid, "output uses a three-digit ring label: ...%s" % out[-40:])
        return bad("%s:syntax:%s" % (pid, kind), "output %r: %s" % (out[:200], mol.faults[:3]))
    for i, a in enumerate(mol.atoms):
        v = oread.explicit_valence(mol, i)
        cap = oread.capacity(table, a)
        if v > cap:
            return bad("%s:valence" % pid,
                       "atom %d %s in %r has bond-order sum + H = %s > capacity %s" % (i, a.text, out[:200], v, cap))
    return None


def c01_decode_valid(case):
    table = case.get("table")
    if not set_table(table):
        return ok("table rejected")
    try:
        tab = sf.get_semantic_constraints()
        try:
            with warnings.catch_warnings():
                warnings.simplefilter("ignore")
                out = sf.decoder(case["selfies"])
        except sf.DecoderError:
            return ok("DecoderError (symbol outside the language)")
        r = smiles_faults(out, tab)
        if r is not None:
            r["detail"] = "decoder(%r) under %s: %s" % (case["selfies"][:120], _short(table), r["detail"])
            return r
        if case.get("rdkit"):
            from rdkit import Chem, RDLogger
            RDLogger.DisableLog("rdApp.*")
            if out and Chem.MolFromSmiles(out) is None:
                return bad("C01:rdkit-reject", "RDKit rejects decoder(%r) = %r" % (case["selfies"][:120], out[:200]))
        return ok(out)
    finally:
        reset_table()


def _short(t):
    s = repr(t)
    return s if len(s) < 200 else s[:200] + "..."


# ---------------------------------------------------------------------------
# C08 / C09 totality


def c08_decoder_total(case):
    table = case.get("table")
    if not set_table(table):
        return ok("table rejected")
    try:
        before = sf.get_semantic_constraints()
        presets = {n: sf.get_preset_constraints(n) for n in ("default", "octet_rule", "hypervalent")}
        _alarm(int(case.get("timeout", 20)))
        try:
            with warnings.catch_warnings():
                warnings.simplefilter("ignore")
                sf.decoder(case["selfies"], compatible=bool(case.get("compatible")), attribute=bool(case.get("attribute")))
        except sf.DecoderError:
            pass
        except _Timeout:
            return bad("C08:timeout", "decoder(%r) did not finish in %ss" % (case["selfies"][:100], case.get("timeout", 20)))
        except RecursionError as ex:
            return bad("C08:RecursionError", "decoder(%r...) len=%d" % (case["selfies"][:60], len(case["selfies"])))
        except Exception as ex:  # noqa
            return bad("C08:%s@%s" % (type(ex).__name__, _where(ex)),
                       "decoder(%r, compatible=%s, attribute=%s) raised %r" % (
                           case["selfies"][:200], case.get("compatible"), case.get("attribute"), ex))
        finally:
            signal.alarm(0)
        after = sf.get_semantic_constraints()
        if after != before:
            return bad("C08:constraints-changed", "decoder(%r) changed the constraint table" % case["selfies"][:100])
        for n, p in presets.items():
            if sf.get_preset_constraints(n) != p:
                return bad("C08:preset-changed", "decoder(%r) changed preset %s" % (case["selfies"][:100], n))
        return ok()
    finally:
        reset_table()


def c09_encoder_total(case):
    table = case.get("table")
    if not set_table(table):
        return ok("table rejected")
    try:
        _alarm(int(case.get("timeout", 20)))
        try:
            sf.encoder(case["smiles"], strict=bool(case.get("strict", True)), attribute=bool(case.get("attribute")))
        except sf.EncoderError:
            pass
        except _Timeout:
            return bad("C09:timeout", "encoder(%r) did not finish" % case["smiles"][:100])
        except RecursionError:
            return bad("C09:RecursionError", "encoder(%r...) len=%d" % (case["smiles"][:60], len(case["smiles"])))
        except Exception as ex:  # noqa
            return bad("C09:%s@%s" % (type(ex).__name__, _where(ex)),
                       "encoder(%r, strict=%s, attribute=%s) raised %r" % (
                           case["smiles"][:200], case.get("strict", True), case.get("attribute"), ex))
        finally:
            signal.alarm(0)
        return ok()
    finally:
        reset_table()


# ---------------------------------------------------------------------------
# C16 index code


def _digits(n):
    if n == 0:
        return [0]
    d = []
    while n:
        d.append(n % 16)
        n //= 16
    return d[::-1]


def c16_index(case):
    from selfies.grammar_rules import get_index_from_selfies, get_selfies_from_index
    if "n" in case:
        n = case["n"]
        got = get_selfies_from_index(n)
        want = [DOC_INDEX[d] for d in _digits(n)]
        if list(got) != want:
            return bad("C16:encode", "get_selfies_from_index(%d) = %r, documented code gives %r" % (n, got, want))
        back = get_index_from_selfies(*got)
        if back != n:
            return bad("C16:roundtrip", "get_index_from_selfies(*%r) = %d != %d" % (got, back, n))
        return ok()
    syms = case["symbols"]  # None = missing (only at the end of the string)
    if None in syms:
        present = [x for x in syms if x is not None]
        if any(x is None for x in syms[:len(present)]):
            return ok("missing symbol in the middle cannot occur")
        q = 0
        for x in syms:
            q = q * 16 + (DOC_INDEX.index(x) if x in DOC_INDEX else 0)
        m = min(q + 4, 4300)
        x = "[C]" * m + "[Ring%d]" % len(syms) + "".join(present)
        out = sf.decoder(x)
        mol = oread.read_smiles(out)
        last = m - 1
        tgt = max(0, last - (q + 1))
        rb = sorted(k for k, b in mol.bonds.items() if b.kind == "ring")
        want_rb = [] if tgt in (last, last - 1) else [(tgt, last)]
        if rb != want_rb:
            return bad("C16:decode", "decoder('[C]'*%d + %r) closes ring bonds %r; the documented code (missing symbols = digit 0) gives Q=%d, i.e. %r"
                       % (m, "[Ring%d]" % len(syms) + "".join(present), rb, q, want_rb))
        return ok()
    want = 0
    for s in syms:
        want = want * 16 + (DOC_INDEX.index(s) if s in DOC_INDEX else 0)
    got = get_index_from_selfies(*syms)
    if got != want:
        return bad("C16:decode", "get_index_from_selfies(*%r) = %d, documented code gives %d" % (syms, got, want))
    return ok()


def c16_end_to_end(case):
    """ring target / branch extent follow the documented index value.
    case: kind ring: chain length m, index symbols; kind branch"""
    reset_table()
    syms = case["symbols"]
    q = 0
    for s in syms:
        q = q * 16 + (DOC_INDEX.index(s) if s in DOC_INDEX else 0)
    L = len(syms)
    if case["what"] == "ring":
        m = case["chain"]
        x = "[C]" * m + "[Ring%d]" % L + "".join(syms)
        out = sf.decoder(x)
        mol = oread.read_smiles(out)
        # atoms created by trailing index symbols do not exist: they are consumed as indices
        last = m - 1
        target = max(0, last - (q + 1))
        want = None if (target == last or target == last - 1) else (target, last)
        rb = [k for k, b in mol.bonds.items() if b.kind == "ring"]
        if want is None:
            # bond to previous atom upgrades the chain bond instead; ring to self is skipped
            if rb:
                return bad("C16:ring-target", "decoder(%r) = %r: unexpected ring bond %r" % (x, out, rb))
            return ok()
        if rb != [want]:
            return bad("C16:ring-target", "decoder(%r) = %r: ring bonds %r, documented target gives %r" % (x, out, rb, want))
        return ok()
    else:
        m = case["chain"]
        x = "[C][Branch%d]" % L + "".join(syms) + "[O]" * m + "[N]"
        out = sf.decoder(x)
        mol = oread.read_smiles(out)
        # branch takes min(q+1, m+1) symbols; the N is in the branch only if q+1 >= m+1
        n_in_branch = min(q + 1, m + 1)
        # atom 0 = C ; branch atoms are 1..n_in_branch ; what follows bonds to atom 0
        nb = [j for (i, j) in mol.bonds if i == 0]
        want_len = len(mol.atoms)
        if n_in_branch >= m + 1:
            expect = [1]
        else:
            expect = [1, 1 + n_in_branch]
        if sorted(nb) != expect:
            return bad("C16:branch-extent", "decoder(%r) = %r: atom 0 bonded to %r, documented extent gives %r" % (x, out, sorted(nb), expect))
        return ok()



# ---------------------------------------------------------------------------
# step lemmas (C01 / C02): concrete re-evaluation on the pristine functions


def lemma_state_fn(case):
    from selfies import grammar_rules as gr
    fn, args = case["fn"], case["args"]
    pid = case.get("prop", "C01")
    if fn == "next_atom_state":
        bo, cap, st = args
        o, nxt = gr.next_atom_state(bo, cap, st)
        want = 0 if st == 0 else min(bo, st, cap)
        good = (o == want) and ((nxt is None and cap - o == 0) or (nxt is not None and nxt == cap - o and nxt > 0))
    elif fn == "next_branch_state":
        bt, st = args
        b, nxt = gr.next_branch_state(bt, st)
        good = (b == min(st - 1, bt)) and nxt is not None and nxt >= 1 and b + nxt == st
        o = (b, nxt)
    else:
        rt, st = args
        o, nxt = gr.next_ring_state(rt, st)
        good = (o == min(rt, st)) and ((nxt is None and st - o == 0) or (nxt is not None and nxt == st - o and nxt > 0))
    if good:
        return ok()
    return bad("%s:state-fn:%s" % (pid, fn), "%s%r returned %r, which breaks the documented state rule" % (fn, tuple(args), (o, nxt)))


def lemma_ring_step(case):
    from selfies import mol_graph as mg, decoder as _d
    import sys
    dec = sys.modules["selfies.decoder"]
    p = case["pre"]
    pid = case.get("prop", "C01")
    if not set_table({"C": p["capA"], "N": p["capB"], "?": 8}):
        return ok("table rejected")
    try:
        mol = mg.MolecularGraph()
        a = mol.add_atom(mg.Atom("C", False), True)
        mol.add_atom(mg.Atom("C", False))
        b = mol.add_atom(mg.Atom("N", False))
        if p["shape"] == 1:
            mol.add_bond(src=0, dst=2, order=p["eord"], stereo=None)
        elif p["shape"] == 2:
            mol.add_ring_bond(a=0, b=2, order=p["eord"], a_stereo=None, b_stereo=None)
        mol._bond_counts[0] = p["cntA"]
        mol._bond_counts[2] = p["cntB"]
        nobj0 = len(mol._bond_dict)
        tgt = a if p["shape"] == 3 else b
        dec._form_rings_bilocally(mol, [(a, tgt, (p["rord"], (None, None)))])
        ca, cb = mol.get_bond_count(0), mol.get_bond_count(2)
        d = ca - p["cntA"]
        probs = []
        if ca > p["capA"] or cb > p["capB"]:
            probs.append("capacity exceeded")
        if d < 0 or cb - p["cntB"] != d:
            probs.append("bond counts changed inconsistently")
        if p["shape"] == 3 and (d != 0 or len(mol._bond_dict) != nobj0):
            probs.append("ring to self changed the graph")
        if p["shape"] != 3:
            if mol.has_bond(0, 2):
                o = mol.get_dirbond(0, 2).order
                old = p["eord"] if p["shape"] in (1, 2) else 0
                if not (1 <= o <= 3) or o - old != d:
                    probs.append("bond order %r inconsistent with counts" % o)
                n02 = len([x for x in mol._adj_list[0] if x is not None and x.dst == 2])
                if n02 != 1 or len(mol._bond_dict) not in (1, 2):
                    probs.append("duplicate bond objects")
            elif d != 0:
                probs.append("counts changed without a bond")
        if probs:
            return bad("%s:ring-step" % pid, "_form_rings_bilocally on pre-state %r: %s (counts after: %r, %r)" % (p, "; ".join(probs), ca, cb))
        return ok()
    finally:
        reset_table()


# ---------------------------------------------------------------------------
# C13


def _dec(x, **kw):
    try:
        with warnings.catch_warnings():
            warnings.simplefilter("ignore")
            return ("ok", sf.decoder(x, **kw))
    except sf.DecoderError:
        return ("DecoderError",)
    except Exception as ex:  # noqa
        return ("exc", type(ex).__name__)


def c13_nop(case):
    if not set_table(case.get("table")):
        return ok("table rejected")
    try:
        x = case["selfies"]
        y = "".join(t for t in _tok(x) if t != "[nop]")
        a = bool(case.get("attribute"))
        c = bool(case.get("compatible"))
        r1, r2 = _dec(x, attribute=a, compatible=c), _dec(y, attribute=a, compatible=c)
        if r1 != r2:
            return bad("C13:differs", "decoder(%r) -> %s but without [nop] decoder(%r) -> %s (attribute=%s, compatible=%s, table %s)"
                       % (x, str(r1)[:120], y, str(r2)[:120], a, c, _short(case.get("table"))))
        return ok()
    finally:
        reset_table()


def c13_padding(case):
    reset_table()
    x = case["selfies"]
    vocab = sorted(set(_tok(x)) | {"[nop]", "."})
    stoi = {s: i for i, s in enumerate(vocab)}
    itos = {i: s for s, i in stoi.items()}
    e = sf.selfies_to_encoding(x, stoi, pad_to_len=case["pad"], enc_type=case["enc_type"])
    back = sf.encoding_to_selfies(e, itos, enc_type=case["enc_type"])
    r1, r2 = _dec(x), _dec(back)
    if r1 != r2:
        return bad("C13:padding", "decoder(%r) -> %s but padded %r -> %s" % (x, r1, back, r2))
    return ok()


# ---------------------------------------------------------------------------
# C18


def c18_compat(case):
    from . import docs
    reset_table()
    x = case["selfies"]
    toks = _tok(x)
    y = "".join(docs.modernize(t) for t in toks)
    r1 = _dec(x, compatible=True)
    r2 = _dec(y)
    if r1 != r2:
        return bad("C18:modern-equivalent", "decoder(%r, compatible=True) -> %s but decoder(%r) -> %s" % (x, str(r1)[:100], y, str(r2)[:100]))
    if not any(docs.is_legacy(t) for t in toks):
        r3 = _dec(x)
        if r3 != r1:
            return bad("C18:not-conservative", "no legacy symbol in %r, yet compatible=True -> %s and plain -> %s" % (x, str(r1)[:100], str(r3)[:100]))
    return ok()


# ---------------------------------------------------------------------------
# C07


def c07_alphabet(case):
    from . import docs
    t = case["table"]
    if not set_table(t):
        return ok("table rejected")
    try:
        tab = sf.get_semantic_constraints()
        alpha = set(sf.get_semantic_robust_alphabet())
        want = set(docs.DOC_INDEX) | {"[%sBranch%d]" % (b, i) for b in ("", "=", "#") for i in (1, 2, 3)} | \
            {"[%sRing%d]" % (b, i) for b in ("", "=") for i in (1, 2, 3)}
        for k, v in tab.items():
            if k == "?":
                continue
            for b, o in (("", 1), ("=", 2), ("#", 3)):
                if o <= v:
                    want.add("[%s%s]" % (b, k))
        if alpha != want:
            return bad("C07:alphabet-content", "table %s: alphabet has extra %s, lacks %s" % (_short(t), sorted(alpha - want)[:5], sorted(want - alpha)[:5]))
        for s in sorted(alpha):
            r = _dec(s)
            if r[0] != "ok":
                return bad("C07:symbol-rejected", "table %s is accepted and its robust alphabet contains %r, which decoder rejects (%s)" % (_short(t), s, r[0]))
        return ok()
    finally:
        reset_table()


def c07_string(case):
    if not set_table(case["table"]):
        return ok("table rejected")
    try:
        tab = sf.get_semantic_constraints()
        alpha = sf.get_semantic_robust_alphabet()
        toks = _tok(case["selfies"])
        if any(t not in alpha for t in toks):
            return ok("not over the alphabet")
        r = _dec(case["selfies"])
        if r[0] != "ok":
            return bad("C07:string-rejected", "decoder(%r) under %s -> %s" % (case["selfies"], _short(case["table"]), r[0]))
        f = smiles_faults(r[1], tab, "C07")
        if f is not None:
            f["detail"] = "decoder(%r) under %s: %s" % (case["selfies"], _short(case["table"]), f["detail"])
            return f
        return ok()
    finally:
        reset_table()


# ---------------------------------------------------------------------------
# C17 attribution



def c17_decoder(case):
    if not set_table(case.get("table")):
        return ok("table rejected")
    try:
        x = case["selfies"]
        r0 = _dec(x)
        try:
            with warnings.catch_warnings():
                warnings.simplefilter("ignore")
                r1 = sf.decoder(x, attribute=True)
        except sf.DecoderError:
            if r0[0] != "DecoderError":
                return bad("C17:decoder-changes-result", "decoder(%r) -> %s but raises DecoderError with attribute=True" % (x, r0))
            return ok()
        if r0 != ("ok", r1[0]):
            return bad("C17:decoder-changes-result", "decoder(%r) -> %s but attribute=True gives %r" % (x, r0, r1[0]))
        out, amap = r1
        eff = [t for t in _tok(x) if t not in ("[nop]", ".")]
        mol = oread.read_smiles(out)
        atom_ends = {a.end - 1: a for a in mol.atoms}
        seen_atoms = set()
        for e in amap:
            lo = e.index + 1 - len(e.token)
            if lo < 0 or out[lo:e.index + 1] != e.token:
                return bad("C17:decoder-output-index", "decoder(%r, attribute=True): entry token %r reported at index %d, but output %r has %r there"
                           % (x, e.token, e.index, out, out[max(lo, 0):e.index + 1]))
            for a in (e.attribution or []):
                if not (0 <= a.index < len(eff)) or eff[a.index] != a.token:
                    return bad("C17:decoder-input-index", "decoder(%r, attribute=True): contributing token %r reported at position %d, input has %r there"
                               % (x, a.token, a.index, eff[a.index] if 0 <= a.index < len(eff) else None))
            if e.index in atom_ends and atom_ends[e.index].text == e.token:
                seen_atoms.add(e.index)
                att = e.attribution or []
                if not att:
                    return bad("C17:decoder-atom-unattributed", "decoder(%r): output atom %r at %d has no attribution" % (x, e.token, e.index))
                creator = att[-1]
                if _atom_text_of_symbol(creator.token) != e.token:
                    return bad("C17:decoder-atom-creator", "decoder(%r): output atom %r at %d attributed to %r" % (x, e.token, e.index, creator.token))
                if any("Branch" not in a.token for a in att[:-1]):
                    return bad("C17:decoder-atom-creator", "decoder(%r): output atom %r at %d: enclosing entries %r are not branch symbols"
                               % (x, e.token, e.index, [a.token for a in att[:-1]]))
                idxs = [a.index for a in att]
                if idxs != sorted(idxs) or len(set(idxs)) != len(idxs):
                    return bad("C17:decoder-atom-creator", "decoder(%r): attribution positions %r of atom at %d not increasing" % (x, idxs, e.index))
        if case.get("creators") is not None:
            # creators: list (per output atom, in order) of (creator position, [enclosing branch positions]) from O-DERIV
            ents = sorted((e for e in amap if e.index in atom_ends), key=lambda e: e.index)
            for e, (cpos, bpos) in zip(ents, case["creators"]):
                got = [a.index for a in (e.attribution or [])]
                if got != list(bpos) + [cpos]:
                    return bad("C17:decoder-atom-creator", "decoder(%r): atom at %d attributed to positions %r, derivation gives %r" % (x, e.index, got, list(bpos) + [cpos]))
        if len(seen_atoms) != len(mol.atoms):
            return bad("C17:decoder-atom-unattributed", "decoder(%r, attribute=True): %d output atoms, %d attributed" % (x, len(mol.atoms), len(seen_atoms)))
        return ok()
    finally:
        reset_table()


def c17_encoder(case):
    reset_table()
    s = case["smiles"]
    strict = bool(case.get("strict", True))
    try:
        r0 = ("ok", sf.encoder(s, strict=strict))
    except sf.EncoderError:
        r0 = ("EncoderError",)
    try:
        r1 = sf.encoder(s, strict=strict, attribute=True)
    except sf.EncoderError:
        if r0[0] != "EncoderError":
            return bad("C17:encoder-changes-result", "encoder(%r) -> %s but raises with attribute=True" % (s, r0))
        return ok()
    if r0 != ("ok", r1[0]):
        return bad("C17:encoder-changes-result", "encoder(%r) -> %s but attribute=True gives %r" % (s, r0, r1[0]))
    out, amap = r1
    mol = oread.read_smiles(s)
    if mol.faults:
        return ok("input not readable by O-READ: %s" % mol.faults[:1])
    syms = _tok(out)
    roles = selfies_roles(syms)
    nodot = [(t, r) for t, r in zip(syms, roles) if r != "dot"]
    atom_pos = [i for i, (t, r) in enumerate(nodot) if r == "atom"]
    if len(atom_pos) != len(mol.atoms):
        return ok("atom count differs (C03's subject)")
    toks_nodot = [t for t in mol.tokens if t[3] != "dot"]
    tokidx = {}
    for i, t in enumerate(toks_nodot):
        if t[3] == "atom":
            tokidx[t[0]] = i
    # every SELFIES atom symbol (position p, k-th atom) must carry an entry attributing it to the k-th SMILES atom token.
    # (entries of branch / ring / index symbols are not part of the property's encoder clause and are not judged.)
    for k, p_ in enumerate(atom_pos):
        a = mol.atoms[k]
        want = (tokidx[a.start], a.text)
        ents = [e for e in amap if e.index == p_ and e.token == nodot[p_][0]]
        if not ents:
            return bad("C17:encoder-atom-unattributed", "encoder(%r, attribute=True) = %r: no entry for atom symbol %r at position %d (entries with that token: %r)"
                       % (s, out, nodot[p_][0], p_, [(e.index, e.token) for e in amap if e.token == nodot[p_][0]][:6]))
        good = [e for e in ents if [(x.index, x.token) for x in (e.attribution or [])] == [want]]
        if not good:
            return bad("C17:encoder-atom-source", "encoder(%r, attribute=True) = %r: atom symbol %r at %d attributed to %r, made from SMILES token %r"
                       % (s, out, nodot[p_][0], p_, [[(x.index, x.token) for x in (e.attribution or [])] for e in ents], want))
    return ok()


# ---------------------------------------------------------------------------
# C12 / C11 histories


def _api():
    from . import hist
    return hist.Api(sf.set_semantic_constraints, sf.get_semantic_constraints, sf.get_preset_constraints,
                    sf.get_semantic_robust_alphabet, sf.decoder, sf.encoder, sf.DecoderError, sf.EncoderError)


_PRESETS0 = None


def _presets0():
    from .docs import presets_doc
    return presets_doc()


def c12_history(case):
    """the history runs on a freshly imported copy of the package: a history starts in a fresh process, where nothing
    (lazily built presets, caches) has been touched yet"""
    import importlib
    import sys
    from . import hist
    saved = {k: v for k, v in sys.modules.items() if k == "selfies" or k.startswith("selfies.")}
    for k in saved:
        del sys.modules[k]
    try:
        fresh = importlib.import_module("selfies")
        return _c12_history(case, fresh, hist)
    finally:
        for k in [k for k in sys.modules if k == "selfies" or k.startswith("selfies.")]:
            del sys.modules[k]
        sys.modules.update(saved)


def _c12_history(case, sf, hist):
    api = hist.Api(sf.set_semantic_constraints, sf.get_semantic_constraints, sf.get_preset_constraints,
                   sf.get_semantic_robust_alphabet, sf.decoder, sf.encoder, sf.DecoderError, sf.EncoderError)

    def _dec(x):
        try:
            with warnings.catch_warnings():
                warnings.simplefilter("ignore")
                return ("ok", sf.decoder(x))
        except sf.DecoderError:
            return ("DecoderError",)
        except Exception as ex:  # noqa
            return ("exc", type(ex).__name__)

    def reset_table():
        pass
    st = hist.State(_presets0())
    probe = "[C][#C]"
    ALIAS = "same object twice (not a private copy)"
    first_alias = None
    try:
        for op in case["ops"]:
            before = _dec(probe)
            cur_before = st.cur
            try:
                hist.apply_op(api, st, op)
            except Exception as ex:  # noqa
                if op["op"] not in ("decode", "encode"):
                    raise
                st.problem("%s raised %s under the table last accepted" % (op["op"], type(ex).__name__))
            hist.observe(api, st)
            from . import oderiv
            hist.probe_unlisted(api, st, len(st.log) - 1, oderiv.derive, oread.read_smiles, oderiv.compare_with_output)
            if st.cur is cur_before and _dec(probe) != before:
                st.problem("decoder(%r) changed across %s, which must leave the table unchanged" % (probe, op["op"]))
            real = [(t, c) for t, c in st.problems if c is True or (c is not False and bool(c))]
            # the aliased alphabet (a known finding, seen after every call) must not hide anything else: the history goes
            # on, and any other problem is what gets reported
            other = [x for x in real if ALIAS not in x[0]]
            if other:
                txt = other[0][0]
                return bad("C12:" + _hist_sig(txt), "after %s: %s" % ([_opname(o) for o in st.log], txt))
            if real and first_alias is None:
                first_alias = ("after %s: %s" % ([_opname(o) for o in st.log], real[0][0]))
        if first_alias is not None:
            return bad("C12:alphabet-aliased", first_alias)
        return ok()
    finally:
        try:
            sf.get_semantic_robust_alphabet.cache_clear()
        except Exception:  # noqa
            pass
        reset_table()


def _opname(o):
    return o["op"] + ("(%s)" % (o.get("name") or o.get("which") or o.get("table") or ""))


def _hist_sig(txt):
    for key, sig in (("same object twice (not a private copy)", "alphabet-aliased"), ("robust alphabet contains", "alphabet-content"),
                     ("robust alphabet lacks", "alphabet-content"), ("preset", "preset-changed"),
                     ("get_semantic_constraints()", "get-differs"), ("does not follow the table last accepted", "translation-ignores-table"),
                     ("decoder(", "translation-changed"),
                     ("accepted", "accepted-invalid"), ("rejected", "rejected-valid")):
        if key in txt:
            return sig
    return "other"



def c11_history(case):
    """translation after a history vs a freshly imported package set to the documented current table"""
    import importlib
    import sys
    from . import hist
    reset_table()
    api = _api()
    st = hist.State(_presets0())
    try:
        for op in case["ops"]:
            hist.apply_op(api, st, op)
        d1 = _dec(case["selfies"])
        try:
            e1 = ("ok", sf.encoder(case["smiles"], strict=False))
        except sf.EncoderError:
            e1 = ("EncoderError",)
        # fresh package
        saved = {k: v for k, v in sys.modules.items() if k == "selfies" or k.startswith("selfies.")}
        for k in saved:
            del sys.modules[k]
        try:
            fresh = importlib.import_module("selfies")
            try:
                e2 = ("ok", fresh.encoder(case["smiles"], strict=False))
            except fresh.EncoderError:
                e2 = ("EncoderError",)
            fresh.set_semantic_constraints(dict(st.cur))
            try:
                with warnings.catch_warnings():
                    warnings.simplefilter("ignore")
                    d2 = ("ok", fresh.decoder(case["selfies"]))
            except fresh.DecoderError:
                d2 = ("DecoderError",)
        finally:
            for k in [k for k in sys.modules if k == "selfies" or k.startswith("selfies.")]:
                del sys.modules[k]
            sys.modules.update(saved)
        names = [_opname(o) for o in case["ops"]]
        if d1 != d2:
            return bad("C11:decoder-depends-on-history", "after %s decoder(%r) -> %s, a fresh interpreter with table %s gives %s"
                       % (names, case["selfies"], d1, _short(st.cur), d2))
        if e1 != e2:
            return bad("C11:encoder-depends-on-history", "after %s encoder(%r, strict=False) -> %s, a fresh interpreter gives %s"
                       % (names, case["smiles"], e1, e2))
        return ok()
    finally:
        try:
            sf.get_semantic_robust_alphabet.cache_clear()
        except Exception:  # noqa
            pass
        reset_table()


# ---------------------------------------------------------------------------
# C14


def c14_utils(case):
    strs = case["strings"]
    wants = [_wf_split(s) for s in strs]
    if any(w is None for w in wants):
        return ok("not well-formed: outside the precondition")
    for s, w in zip(strs, wants):
        try:
            items = list(sf.split_selfies(s))
        except Exception as ex:  # noqa
            return bad("C14:split-raises", "split_selfies(%r) raised %r" % (s, ex))
        if items != w or "".join(items) != s:
            return bad("C14:split", "split_selfies(%r) = %r, expected %r" % (s, items, w))
        if sf.len_selfies(s) != len(w):
            return bad("C14:len", "len_selfies(%r) = %d but split_selfies yields %d items" % (s, sf.len_selfies(s), len(w)))
    want = set()
    for w in wants:
        want |= set(w)
    want.discard(".")
    try:
        got = sf.get_alphabet_from_selfies(iter(strs) if case.get("one_shot_iterator") else strs)
    except Exception as ex:  # noqa
        return bad("C14:alphabet-raises", "get_alphabet_from_selfies(%r) raised %r" % (strs, ex))
    if got != want:
        return bad("C14:alphabet", "get_alphabet_from_selfies(%r) = %r, expected %r" % (strs, sorted(got), sorted(want)))
    return ok()


def c14_enc(case):
    reset_table()
    try:
        out = sf.encoder(case["smiles"], strict=False)
    except sf.EncoderError:
        return ok()
    w = _wf_split(out)
    if w is None:
        return bad("C14:encoder-output-malformed", "encoder(%r) = %r is not a well-formed SELFIES string" % (case["smiles"], out))
    if list(sf.split_selfies(out)) != w:
        return bad("C14:split", "split_selfies(%r) differs from the independent scan" % out)
    return ok()


# ---------------------------------------------------------------------------
# C15


def c15_encoding(case):
    stoi = dict(case["vocab"])
    itos = {i: s_ for s_, i in stoi.items()}
    s = case["selfies"]
    items = _tok(s)
    pad, et = case["pad"], case["enc_type"]
    npad = max(0, pad - len(items))
    must_raise = et not in ("label", "one_hot", "both") or (npad > 0 and "[nop]" not in stoi)
    try:
        r = sf.selfies_to_encoding(s, stoi, pad_to_len=pad, enc_type=et)
    except (KeyError, ValueError) as ex:
        if must_raise:
            return ok()
        return bad("C15:raises", "selfies_to_encoding(%r, %r, pad_to_len=%r, enc_type=%r) raised %r" % (s, stoi, pad, et, ex))
    if must_raise:
        return bad("C15:no-error", "selfies_to_encoding(%r, %r, pad_to_len=%r, enc_type=%r) returned %r instead of raising" % (s, stoi, pad, et, r))
    want = [stoi[x] for x in items] + [stoi["[nop]"]] * npad
    lab = r if et == "label" else (r[0] if et == "both" else None)
    hot = r if et == "one_hot" else (r[1] if et == "both" else None)
    if lab is not None and list(lab) != want:
        return bad("C15:label", "label encoding of %r (pad %r, vocab %r) = %r, expected %r" % (s, pad, stoi, lab, want))
    if hot is not None:
        wh = [[1 if j == k else 0 for j in range(len(stoi))] for k in want]
        if [list(x) for x in hot] != wh:
            return bad("C15:one-hot", "one-hot encoding of %r (pad %r, vocab %r) = %r, expected %r" % (s, pad, stoi, hot, wh))
    expect = s + "[nop]" * npad
    if lab is not None and sf.encoding_to_selfies(lab, itos, enc_type="label") != expect:
        return bad("C15:decode-label", "encoding_to_selfies(label) of %r does not give %r" % (lab, expect))
    if hot is not None and sf.encoding_to_selfies(hot, itos, enc_type="one_hot") != expect:
        return bad("C15:decode-one-hot", "encoding_to_selfies(one_hot) of %r does not give %r" % (hot, expect))
    return ok()


def c15_batch(case):
    V = ["[nop]", "[C]", "[=O]", ".", "[Cl]"]
    stoi = {s_: i for i, s_ in enumerate(V)}
    itos = {i: s_ for s_, i in stoi.items()}
    batch, pad = case["batch"], case["pad"]
    try:
        flat = sf.batch_selfies_to_flat_hot(batch, stoi, pad)
    except Exception as ex:  # noqa
        return bad("C15:batch-raises", "batch_selfies_to_flat_hot(%r, pad=%r) raised %r" % (batch, pad, ex))
    want = []
    exp = []
    for s in batch:
        it = _tok(s)
        idx = [stoi[x] for x in it] + [stoi["[nop]"]] * max(0, pad - len(it))
        want.append([1 if j == k else 0 for k in idx for j in range(len(V))])
        exp.append(s + "[nop]" * max(0, pad - len(it)))
    if [list(x) for x in flat] != want:
        return bad("C15:batch", "batch_selfies_to_flat_hot(%r, pad=%r) differs from the element-wise encoding" % (batch, pad))
    if sf.batch_flat_hot_to_selfies(flat, itos) != exp:
        return bad("C15:batch-inverse", "batch_flat_hot_to_selfies does not invert batch_selfies_to_flat_hot on %r" % (batch,))
    if want[0]:
        try:
            sf.batch_flat_hot_to_selfies([want[0][:-1]], itos)
            return bad("C15:ragged", "a flat vector whose length is not a multiple of the vocabulary size was accepted")
        except ValueError:
            pass
    return ok()


# ---------------------------------------------------------------------------
# C06


def c06_strict(case):
    smi = case["smiles"]
    reset_table()
    try:
        base = ("ok", sf.encoder(smi, strict=False))
    except sf.EncoderError:
        base = ("EncoderError",)
    if not set_table(case["table"]):
        return ok("table rejected")
    try:
        tab = sf.get_semantic_constraints()
        try:
            r0 = ("ok", sf.encoder(smi, strict=False))
        except sf.EncoderError:
            r0 = ("EncoderError",)
        if r0 != base:
            return bad("C06:nonstrict-depends-on-table", "encoder(%r, strict=False) -> %s under the default table but %s under %s" % (smi, base, r0, _short(case["table"])))
        try:
            r1 = ("ok", sf.encoder(smi, strict=True))
        except sf.EncoderError as ex:
            r1 = ("EncoderError", str(ex))
        if r0[0] != "ok":
            if r1[0] == "ok":
                return bad("C06:strict-accepts-unparseable", "encoder(%r) fails with strict=False but succeeds with strict=True" % smi)
            return ok()
        if r1[0] == "ok" and r1[1] != r0[1]:
            return bad("C06:strict-changes-output", "encoder(%r): strict=True gives %r, strict=False gives %r" % (smi, r1[1], r0[1]))
        mol = oread.read_smiles(smi)
        if mol.faults:
            return ok("unreadable: iff not judged")
        if any(a.aromatic for a in mol.atoms) or any(b.order == 1.5 for b in mol.bonds.values()):
            need = [judge.pi_need(mol, i) if a.aromatic else 0 for i, a in enumerate(mol.atoms)]
            if any(n is None for n in need):
                return ok("aromatic atom outside the standard kinds: iff not judged")
            vals = []
            for i, a in enumerate(mol.atoms):
                sig = sum((1 if b.order == 1.5 else b.order) for (x, y), b in mol.bonds.items() if i in (x, y))
                vals.append(int(sig + (a.hcount or 0) + need[i]))
        else:
            vals = [oread.explicit_valence(mol, i) for i in range(len(mol.atoms))]
        over = [(i, a.text, vals[i], oread.capacity(tab, a)) for i, a in enumerate(mol.atoms)
                if vals[i] > oread.capacity(tab, a)]
        if over and r1[0] == "ok":
            return bad("C06:strict-accepts-violation", "encoder(%r, strict=True) under %s succeeds although atom %s has %s bonds+H > capacity %s"
                       % (smi, _short(case["table"]), over[0][1], over[0][2], over[0][3]))
        if not over and r1[0] != "ok":
            return bad("C06:strict-rejects-valid", "encoder(%r, strict=True) under %s raises although no atom exceeds its capacity: %s"
                       % (smi, _short(case["table"]), r1[1][-160:]))
        return ok()
    finally:
        reset_table()


# ---------------------------------------------------------------------------
# C03 / C10 / C04 round trip


def _enc(s, **kw):
    try:
        return ("ok", sf.encoder(s, **kw))
    except sf.EncoderError as ex:
        return ("EncoderError", str(ex)[-200:])
    except Exception as ex:  # noqa
        return ("exc", type(ex).__name__)


def c03_roundtrip(case):
    if not set_table(case.get("table")):
        return ok("table rejected")
    try:
        s = case["smiles"]
        e = _enc(s, strict=True)
        if e[0] != "ok":
            return ok("not accepted: %s" % (e,))
        d = _dec(e[1])
        if d[0] != "ok":
            return bad("C03:decode-fails", "encoder(%r) = %r, decoding it gives %s" % (s, e[1], d))
        m_in = oread.read_smiles(s)
        if m_in.faults:
            return ok("input not readable by O-READ: %s" % m_in.faults[:1])
        m_out = oread.read_smiles(d[1])
        if m_out.faults:
            return bad("C03:output-unreadable", "decoder(encoder(%r)) = %r: %s" % (s, d[1], m_out.faults[:2]))
        r = compare_mols(m_in, m_out)
        if r is None:
            # "aromatic input bonds become a consistent single/double assignment": a Kekule structure of the input
            r = judge.kekule_problem(m_in, m_out)
        if r is not None:
            return bad("C03:" + r[0], "%r -> %r -> %r under %s: %s" % (s, e[1], d[1], _short(case.get("table")), r[1]))
        return ok()
    finally:
        reset_table()


def c10_stable(case):
    if not set_table(case.get("table")):
        return ok("table rejected")
    try:
        s = case["smiles"]
        e = _enc(s, strict=True)
        if e[0] != "ok":
            return ok("not accepted")
        e = e[1]
        w = _wf_split(e)
        if w is None or list(sf.split_selfies(e)) != w:
            return bad("C10:malformed-output", "encoder(%r) = %r is not a well-formed SELFIES string" % (s, e))
        d = _dec(e)
        if d[0] != "ok":
            return bad("C10:undecodable", "encoder(%r) = %r, which decoder rejects (%s)" % (s, e, d[0]))
        e2 = _enc(d[1], strict=True)
        if e2 != ("ok", e):
            sig = "C10:unstable:ring-digit-after-branch" if judge.RING_AFTER_BRANCH.search(s) else "C10:unstable"
            return bad(sig, "encoder(%r) = %r, decoded %r, re-encoded %s" % (s, e, d[1], str(e2)[:200]))
        m_in = oread.read_smiles(s)
        if not m_in.faults:
            r = judge.standard_symbol_problem(m_in, e)
            if r is not None:
                return bad("C10:" + r[0], "encoder(%r): %s" % (s, r[1]))
        return ok()
    finally:
        reset_table()


def c04_stereo(case):
    reset_table()
    s = case["smiles"]
    e = _enc(s, strict=False)
    if e[0] != "ok":
        return ok("not accepted")
    d = _dec(e[1])
    if d[0] != "ok":
        return ok("decode fails (C10)")
    m_in, m_out = oread.read_smiles(s), oread.read_smiles(d[1])
    if m_in.faults or m_out.faults or compare_mols(m_in, m_out) is not None:
        return ok("skeleton differs (C03)")
    r = judge.stereo_problem(m_in, m_out)
    if r is not None:
        return bad("C04:" + r[0], "%r -> %r -> %r: %s" % (s, e[1], d[1], r[1]))
    return ok()


# ---------------------------------------------------------------------------
# C05


RELAXED = {"H": 1, "F": 1, "Cl": 7, "Br": 7, "I": 7, "B": 3, "B+1": 2, "B-1": 4, "O": 2, "O+1": 3, "O-1": 1,
           "N": 5, "N+1": 4, "N-1": 2, "C": 4, "C+1": 3, "C-1": 3, "P": 7, "P+1": 6, "P-1": 8,
           "S": 6, "S+1": 5, "S-1": 5, "?": 12}


def c05_kekulize(case):
    set_table(dict(RELAXED))
    try:
        s = case["smiles"]
        m_in = oread.read_smiles(s)
        if m_in.faults:
            return ok("unreadable")
        atoms, abonds = judge.aromatic_system(m_in)
        if not atoms:
            return ok("no aromatic atoms")
        e = _enc(s, strict=True)
        if e[0] == "exc":
            return ok("other exception (C09)")
        if e[0] != "ok":
            if judge.rejectable(m_in, RELAXED) is False:
                return bad("C05:rejects-kekulizable", "encoder(%r) raises EncoderError (%s) although the aromatic system (standard atom kinds) has an alternating assignment and no atom exceeds its capacity" % (s[:160], e[1].strip().split("\n")[0][:60]))
            return ok("rejected")
        d = _dec(e[1])
        if d[0] != "ok":
            return ok("decode fails (C10)")
        m_out = oread.read_smiles(d[1])
        if m_out.faults:
            return ok("output unreadable (C01)")
        r = compare_mols(m_in, m_out)
        if r is not None:
            return bad("C05:skeleton:" + r[0], "%r -> %r -> %r: %s" % (s[:160], e[1][:80], d[1][:160], r[1]))
        r = judge.kekule_problem(m_in, m_out)
        if r is not None:
            return bad("C05:" + r[0], "%r -> %r: %s" % (s[:160], d[1][:160], r[1]))
        if judge.kekulizable(m_in) is False:
            return bad("C05:accepts-non-kekulizable", "encoder(%r) succeeds although no alternating assignment exists" % s[:160])
        return ok()
    finally:
        reset_table()


def c05_matching(case):
    from selfies.utils.matching_utils import find_perfect_matching
    g = [list(x) for x in case["graph"]]
    edges = [(i, j) for i, l in enumerate(g) for j in l if i < j]
    want = judge.has_perfect_matching(range(len(g)), edges)
    got = find_perfect_matching([list(x) for x in g])
    if got is None:
        if want:
            return bad("C05:matching-missed", "find_perfect_matching(%r) returned None although a perfect matching exists" % (g,))
        return ok()
    okm = len(got) == len(g) and all(got[i] is not None and got[got[i]] == i and got[i] in g[i] for i in range(len(g)))
    if not okm:
        return bad("C05:matching-invalid", "find_perfect_matching(%r) = %r is not a perfect matching" % (g, got))
    return ok()



def c05_order(case):
    set_table(dict(RELAXED))
    try:
        a, b = _enc(case["a"], strict=True), _enc(case["b"], strict=True)
        if (a[0] == "ok") != (b[0] == "ok"):
            return bad("C05:order-dependent", "encoder accepts %r -> %s but for the same molecule spelled %r -> %s" % (case["a"][:120], a[0], case["b"][:120], b[0]))
        return ok()
    finally:
        reset_table()


# ---------------------------------------------------------------------------
# C02


def c02_deriv(case):
    from . import oderiv
    if not set_table(case.get("table")):
        return ok("table rejected")
    try:
        tab = sf.get_semantic_constraints()
        x = case["selfies"]
        toks = _tok(x)
        if "".join(toks) != x:
            return ok("not a well-formed symbol string")
        d = oderiv.derive(toks, tab)
        r = _dec(x)
        if r[0] == "exc":
            return bad("C02:exception", "decoder(%r) raised %s" % (x, r[1]))
        if d.error is not None:
            if r[0] != "DecoderError":
                return bad("C02:accepts-outside-grammar", "decoder(%r) under %s returns %r although the derivation reaches %r (position %d), which is outside the grammar"
                           % (x, _short(case.get("table")), r[1], d.error.sym, d.error.pos))
            return ok()
        if r[0] != "ok":
            return bad("C02:rejects-inside-grammar", "decoder(%r) under %s raises DecoderError although every symbol the derivation reaches is in the grammar" % (x, _short(case.get("table"))))
        out = r[1]
        mol = oread.read_smiles(out) if out else oread.Mol()
        pb = oderiv.compare_with_output(d, mol) if out else (None if not d.atoms else "empty output but the derivation yields atoms")
        if pb:
            return bad("C02:differs", "decoder(%r) under %s = %r: %s" % (x, _short(case.get("table")), out, pb))
        return ok()
    finally:
        reset_table()



def c01_writer_graph(case):
    """the decoder-reachable witness for a writer fault: build the same graph through selfies.decoder"""
    from selfies import mol_graph as mg
    from selfies.utils import smiles_utils as su
    reset_table()
    n1, n2 = case["natoms"]
    n = n1 + n2
    mol = mg.MolecularGraph()
    for i in range(n):
        mol.add_atom(mg.Atom("C", False), i in (0, n1))
    chain = set()
    for i in range(n):
        if i + 1 < n and i + 1 != n1:
            mol.add_bond(i, i + 1, 1, None)
            chain.add((i, i + 1))
    made = [0] * n
    for l, r in case["rings"]:
        mol.add_ring_bond(a=l, a_stereo=None, a_pos=made[l], b=r, b_stereo=None, b_pos=made[r], order=1)
        made[l] += 1
        made[r] += 1
    out = su.mol_to_smiles(mol)
    m = oread.read_smiles(out)
    want = chain | set(map(tuple, case["rings"]))
    if m.faults or set(m.bonds) != want or len(m.atoms) != n:
        # public-API witness: the same graph derived by the decoder
        x = ""
        sym = []
        for i in range(n):
            if i == n1:
                sym.append(".")
            sym.append("[C]")
            for (l, r) in case["rings"]:
                if r == i:
                    q = r - l - 1
                    sym.append("[Ring1]" if q < 16 else "[Ring2]")
                    from . import docs
                    sym.append(docs.DOC_INDEX[q] if q < 16 else docs.DOC_INDEX[q // 16])
                    if q >= 16:
                        sym.append(docs.DOC_INDEX[q % 16])
        x = "".join(sym)
        pub = _dec(x)
        return bad("C01:writer:" + (m.faults[0][0] if m.faults else "bond-set"),
                   "mol_to_smiles writes %r for chains %d+%d with ring bonds %r (reads back as bonds %s, faults %s); decoder(%r) -> %s"
                   % (out, n1, n2, case["rings"], sorted(m.bonds), m.faults[:2], x, pub))
    return ok()



def c06_history(case):
    try:
        if not set_table(case["table_a"]):
            return ok("table A rejected")
        for s in (case["warm"], case["smiles"]):
            _enc(s, strict=True)
        if not set_table(case["table_b"]):
            return ok("table B rejected")
        tab = sf.get_semantic_constraints()
        smi = case["smiles"]
        r1 = _enc(smi, strict=True)
        mol = oread.read_smiles(smi)
        over = [(a.text, oread.explicit_valence(mol, i), oread.capacity(tab, a)) for i, a in enumerate(mol.atoms)
                if oread.explicit_valence(mol, i) > oread.capacity(tab, a)]
        if over and r1[0] == "ok":
            return bad("C06:strict-accepts-violation:after-table-change", "after strict encodes under %s and a switch to %s, encoder(%r, strict=True) succeeds although %s has %s > capacity %s"
                       % (_short(case["table_a"]), _short(case["table_b"]), smi, over[0][0], over[0][1], over[0][2]))
        if not over and r1[0] != "ok":
            return bad("C06:strict-rejects-valid:after-table-change", "after strict encodes under %s and a switch to %s, encoder(%r, strict=True) raises although no atom exceeds its capacity"
                       % (_short(case["table_a"]), _short(case["table_b"]), smi))
        return ok()
    finally:
        reset_table()



def tv_batch(case):
    reset_table()
    r = judge.run_corpus(sf.decoder, sf.encoder, sf.DecoderError, sf.EncoderError, case["selfies"], case["smiles"])
    reset_table()
    return {"violation": False, "results": r, "detail": ""}



def lemma_derive_step(case):
    """replay of a step-lemma model: the real function with the real recursion, from the concrete loop-head state,
    first on exactly one iteration, then on a few adversarial continuations that try to spend everything the
    state still promises (the lemma's stub allows any behaviour within the contract; a real continuation has to be found)"""
    import sys
    from selfies import mol_graph as mg
    dec = sys.modules["selfies.decoder"]
    pid = case.get("prop", "C01")
    if not set_table(case["table"]):
        return ok("table rejected")
    syms = list(case["symbols"])
    first = syms[0]
    m = re.match(r"^\[.*?(?:Branch|Ring)([123])\]$", first)
    nidx = int(m.group(1)) if m else 0
    B = ["[#Branch1]", "[C]", "[#C]"]
    inner = ["[#Branch1]", "[C]", "[#C]", "[C]"]          # spends up to 4 on the branch root (nested branch at branch start)
    U = ["[#Branch1]", "[Branch1]"] + inner                # a branch of exactly those 4 symbols
    conts = [(syms, 1)]
    if nidx and "Branch" in first:
        idx4 = ["[C]"] * (nidx - 1) + ["[Branch1]"]
        conts.append(([first] + idx4 + inner + U * 3 + ["[#C]", "[C]"], None))
        conts.append(([first] + idx4 + inner + B * 3 + ["[#C]", "[C]"], None))
    for tail in (U * 3 + ["[#C]"], B * 3 + ["[#C]"], ["[#C]", "[C]"] + U * 2 + ["[#C]"], ["[#N]"] + B + ["[#N]"], ["[=C]"] * 4):
        conts.append(([first] + syms[1:1 + nidx] + tail, None))
    try:
        for symbols, budget in conts:
            mol = mg.MolecularGraph()
            rings = []
            if case["has_root"]:
                mol.add_atom(mg.Atom("N", False), True)
                root = mol.add_atom(mg.Atom("C", False))
                mol._bond_counts[0] = case["cnt_other"]
                mol._bond_counts[1] = case["cnt_root"]
                st = case["state"]
            else:
                root, st = None, 0
            try:
                dec._derive_mol_from_symbols(enumerate(iter(symbols)), mol, "x", budget if budget else float("inf"), st, root, rings, None, 0)
                dec._form_rings_bilocally(mol, rings)
            except sf.DecoderError:
                continue
            except Exception as ex:  # noqa
                return bad("%s:derive-step:%s" % (pid, type(ex).__name__), "derivation from loop-head state %r (root count %r, table %s) on %r raised %r"
                           % (st, case.get("cnt_root"), _short(case["table"]), symbols, ex))
            for a in mol.get_atoms():
                if mol.get_bond_count(a.index) > a.bonding_capacity:
                    return bad("%s:derive-step" % pid, "derivation from loop-head state %r (root count %r of capacity %r, table %s) on symbols %r leaves atom %d with %r bonds > capacity %r"
                               % (st, case.get("cnt_root"), case["table"].get("C"), _short(case["table"]), symbols, a.index, mol.get_bond_count(a.index), a.bonding_capacity))
        return ok()
    finally:
        reset_table()




def c15_two_vocab(case):
    for call in case["calls"]:
        V = call["vocab"]
        stoi = {s_: i for i, s_ in enumerate(V)}
        itos = {i: s_ for s_, i in stoi.items()}
        sc = call["selfies"]
        items = _tok(sc)
        try:
            lab, hot = sf.selfies_to_encoding(sc, stoi, enc_type="both")
            flat = sf.batch_selfies_to_flat_hot([sc], stoi)
            back = sf.batch_flat_hot_to_selfies(flat, itos)
        except Exception as ex:  # noqa
            return bad("C15:second-vocabulary", "after the earlier calls %r, encoding %r with vocabulary %r raised %r" % ([c["selfies"] for c in case["calls"]], sc, V, ex))
        want = [stoi[x] for x in items]
        wh = [[1 if j == k else 0 for j in range(len(V))] for k in want]
        if list(lab) != want or [list(r) for r in hot] != wh or list(back) != [sc] or [list(f) for f in flat] != [[x for r in wh for x in r]]:
            return bad("C15:second-vocabulary", "in a process that first encoded %r, encoding %r with vocabulary %r gives label %r one-hot %r (expected %r), flat-hot round trip %r"
                       % (case["calls"][0]["selfies"], sc, V, lab, hot, wh, back))
    return ok()



def lemma_ring_order(case):
    """public witness: derive the same graph through selfies.decoder and read the written neighbour order back"""
    from . import oderiv, docs
    reset_table()
    set_table({"C": 9, "?": 9, "O": 2})
    try:
        cands = [tuple(c) for c in case["candidates"]]
        # chain 0-1-2-3 with branch atom 4 on atom 1: derivation order is 0, 1, 4(branch), 2, 3 -> rename to derivation indices
        order = {0: 0, 1: 1, 4: 2, 2: 3, 3: 4}
        sym = ["[C]", "[C]", "[Branch1]", "[C]", "[C]", "[C]", "[C]"]
        pos_of_atom = {0: 0, 1: 1, 2: 3, 3: 5, 4: 6}   # derivation index -> position in sym after which ring symbols go
        ins = {}
        for (l, r) in cands:
            dl, dr = sorted((order[l], order[r]))
            q = dr - dl - 1
            ins.setdefault(dr, []).extend(["[Ring1]", docs.DOC_INDEX[q]])
        out = []
        d = -1
        for i, t in enumerate(sym):
            out.append(t)
            if t == "[C]" and not (i == 3 and False):
                pass
        # rebuild symbol list with ring symbols right after the closing atom
        seq = ["[C]", "[C]", "[Branch1]", "[C]"]
        x = []
        atom_i = -1
        tokens = [("a", 0), ("a", 1), ("b", None), ("i", None), ("a", 2), ("a", 3), ("a", 4)]
        for kind, _ in tokens:
            if kind == "a":
                atom_i += 1
                x.append("[C]")
                if atom_i == 2:
                    # ring symbols inside the one-symbol branch would exceed its budget: put them on the main chain is impossible
                    pass
                x.extend(ins.get(atom_i, []) if atom_i != 2 else [])
            elif kind == "b":
                x.append("[Branch1]")
            else:
                n_in_branch = 1 + len(ins.get(2, []))
                x.append(docs.DOC_INDEX[n_in_branch - 1])
            if kind == "a" and atom_i == 2:
                x.extend(ins.get(2, []))
        s = "".join(x)
        toks = _tok(s)
        dres = oderiv.derive(toks, sf.get_semantic_constraints())
        r = _dec(s)
        if r[0] != "ok" or dres.error is not None:
            return ok("witness not decodable")
        pb = oderiv.compare_with_output(dres, oread.read_smiles(r[1]))
        if pb:
            return bad("%s:ring-placement" % case.get("prop", "C02"), "ring candidates %r: decoder(%r) = %r: %s" % (cands, s, r[1], pb))
        return ok()
    finally:
        reset_table()



def c10_history(case):
    try:
        if not set_table(case["table_a"]):
            return ok("table A rejected")
        _dec(case["warm"])
        if not set_table(case["table_b"]):
            return ok("table B rejected")
        s = case["smiles"]
        e = _enc(s, strict=True)
        if e[0] != "ok":
            return ok("not accepted under B")
        d = _dec(e[1])
        if d[0] != "ok":
            return bad("C10:undecodable:after-table-change", "after decoding %r under %s and switching to %s, encoder(%r) = %r is rejected by the decoder (%s)"
                       % (case["warm"], _short(case["table_a"]), _short(case["table_b"]), s, e[1], d[0]))
        e2 = _enc(d[1], strict=True)
        if e2 != ("ok", e[1]):
            return bad("C10:unstable:after-table-change", "after a table change, encoder(%r) = %r decodes to %r, which re-encodes to %s" % (s, e[1], d[1], e2))
        return ok()
    finally:
        reset_table()



def c08_history(case):
    try:
        if not set_table(case["table_a"]):
            return ok("table A rejected")
        kw = dict(compatible=bool(case.get("compatible")), attribute=bool(case.get("attribute")))
        _dec(case["selfies"], **kw)
        if not set_table(case["table_b"]):
            return ok("table B rejected")
        try:
            with warnings.catch_warnings():
                warnings.simplefilter("ignore")
                sf.decoder(case["selfies"], **kw)
        except sf.DecoderError:
            pass
        except Exception as ex:  # noqa
            return bad("C08:%s@%s:after-table-change" % (type(ex).__name__, _where(ex)),
                       "after decoding it under %s and switching to %s, decoder(%r, %s) raised %r" % (_short(case["table_a"]), _short(case["table_b"]), case["selfies"], kw, ex))
        return ok()
    finally:
        reset_table()



def c07_after_reject(case):
    if not set_table(case["table"]):
        return ok("table A rejected")
    try:
        A = sf.get_semantic_constraints()
        try:
            sf.set_semantic_constraints(dict(case["bad"]))
            return ok("second table accepted (C12's subject)")
        except ValueError:
            pass
        r = c07_alphabet_now(A)
        if r is not None:
            return r
        d = _dec(case["selfies"])
        if d[0] != "ok":
            return bad("C07:after-rejected-update", "table %s in force, update %s rejected, then decoder(%r) -> %s" % (_short(case["table"]), case["bad"], case["selfies"], d[0]))
        f = smiles_faults(d[1], A, "C07")
        if f is not None:
            f["sig"] = "C07:after-rejected-update"
            f["detail"] = "table %s in force, update %s rejected, then decoder(%r): %s" % (_short(case["table"]), case["bad"], case["selfies"], f["detail"])
            return f
        return ok()
    finally:
        reset_table()


def c07_after_accept(case):
    """table A accepted and used, then table B accepted (as a fresh dict, as the same dict object edited in place, or
    as an equal-looking dict after the caller edited the one passed before): alphabet and strings follow B"""
    reset_table()
    try:
        A, B, mode = dict(case["table_a"]), dict(case["table_b"]), case["mode"]
        d = dict(A)
        try:
            sf.set_semantic_constraints(d)
        except ValueError:
            return ok("table A rejected")
        sf.get_semantic_robust_alphabet()
        _dec(case["selfies"])
        try:
            if mode == "fresh":
                sf.set_semantic_constraints(dict(B))
            elif mode == "same_object":
                d.clear()
                d.update(B)
                sf.set_semantic_constraints(d)
            else:
                d.clear()
                d.update(B)          # the caller edits the dict it passed before ...
                sf.set_semantic_constraints(dict(B))   # ... and passes an equal-looking new one
        except ValueError:
            return ok("table B rejected")
        tab = dict(B)
        got = sf.get_semantic_constraints()
        if got != tab:
            return bad("C07:after-accepted-update", "tables %s then %s (%s): get_semantic_constraints() = %s" % (_short(A), _short(B), mode, _short(got)))
        r = c07_alphabet_now(tab, "C07:after-accepted-update", "after the accepted update %s -> %s (%s)" % (_short(A), _short(B), mode))
        if r is not None:
            return r
        dd = _dec(case["selfies"])
        if dd[0] != "ok":
            return bad("C07:after-accepted-update", "tables %s then %s (%s): decoder(%r) -> %s" % (_short(A), _short(B), mode, case["selfies"], dd[0]))
        f = smiles_faults(dd[1], tab, "C07")
        if f is not None:
            f["sig"] = "C07:after-accepted-update"
            f["detail"] = "tables %s then %s (%s): decoder(%r): %s" % (_short(A), _short(B), mode, case["selfies"], f["detail"])
            return f
        return ok()
    finally:
        reset_table()


def c07_alphabet_now(tab, sig="C07:after-rejected-update", what="after a rejected update"):
    from . import docs
    alpha = set(sf.get_semantic_robust_alphabet())
    want = set(docs.DOC_INDEX) | {"[%sBranch%d]" % (b, i) for b in ("", "=", "#") for i in (1, 2, 3)} | \
        {"[%sRing%d]" % (b, i) for b in ("", "=") for i in (1, 2, 3)}
    for k, v in tab.items():
        if k == "?":
            continue
        for b, o in (("", 1), ("=", 2), ("#", 3)):
            if o <= v:
                want.add("[%s%s]" % (b, k))
    if alpha != want:
        return bad(sig, "%s the robust alphabet no longer matches the table in force %s: extra %s, missing %s"
                   % (what, _short(tab), sorted(alpha - want)[:4], sorted(want - alpha)[:4]))
    return None

# ---------------------------------------------------------------------------

KINDS = {
    "decode_valid": c01_decode_valid,
    "decoder_total": c08_decoder_total,
    "encoder_total": c09_encoder_total,
    "index": c16_index,
    "index_e2e": c16_end_to_end,
    "nop_invisible": c13_nop,
    "nop_padding": c13_padding,
    "compat": c18_compat,
    "alphabet": c07_alphabet,
    "robust_string": c07_string,
    "attr_decoder": c17_decoder,
    "attr_encoder": c17_encoder,
    "config_history": c12_history,
    "pure_history": c11_history,
    "tok_utils": c14_utils,
    "enc_wellformed": c14_enc,
    "encoding": c15_encoding,
    "batch_encoding": c15_batch,
    "strict": c06_strict,
    "roundtrip": c03_roundtrip,
    "stable": c10_stable,
    "stereo": c04_stereo,
    "kekulize": c05_kekulize,
    "matching": c05_matching,
    "kek_order": c05_order,
    "deriv": c02_deriv,
    "writer_graph": c01_writer_graph,
    "strict_history": c06_history,
    "tv_batch": tv_batch,
    "derive_step": lemma_derive_step,
    "two_vocab": c15_two_vocab,
    "ring_order": lemma_ring_order,
    "stable_history": c10_history,
    "decoder_total_history": c08_history,
    "robust_after_reject": c07_after_reject,
    "robust_after_accept": c07_after_accept,
    "state_fn": lemma_state_fn,
    "ring_step": lemma_ring_step,
}


def check_case(case):
    fn = KINDS.get(case.get("kind"))
    if fn is None:
        return {"violation": False, "error": True, "detail": "unknown case kind %r" % case.get("kind")}
    return fn(case)
