"""Finite-domain symbolic strings for pathsym, proxy-aware containers, and the
instrumented loader for /repo/selfies.  See DESIGN.md section 2.

SymTok  - token-addressed: value = vals[e] for a z3 Int expression e with
          0 <= e < len(vals).  Every str method is evaluated pointwise with the
          real str method on each alternative and the results merged.
SymStr  - character-addressed: a sequence of cells; a cell is a concrete
          character or (slot, offset) where a slot is an Int variable ranging
          over equal-width alternative strings.
"""
import ast
import functools
import importlib
import importlib.abc
import importlib.util
import operator
import os
import re
import string
import sys

import z3

from . import engine
from .engine import SymBool, SymInt, mk_int, zint, HarnessError, sym_min, sym_max


def _eng():
    return engine.ENG


class CannotMerge(Exception):
    pass


# ---------------------------------------------------------------------------
# merging of concrete python values under z3 conditions


def _same_partial(a, b):
    return (isinstance(a, functools.partial) and isinstance(b, functools.partial)
            and a.func is b.func and a.args == b.args and a.keywords == b.keywords)


def merge_values(pairs):
    """pairs: [(z3 cond, value)] with exhaustive, mutually exclusive conds
    (under the path condition).  Returns one merged value or raises CannotMerge."""
    vals = [v for _, v in pairs]
    v0 = vals[0]
    if all((v is v0) or (type(v) is type(v0) and not isinstance(v, (SymInt, SymBool, SymTok, SymStr))
                         and not isinstance(v, functools.partial) and v == v0) for v in vals):
        return v0
    if all(isinstance(v, functools.partial) for v in vals):
        if all(_same_partial(v, v0) for v in vals):
            return v0
        raise CannotMerge()
    if all(isinstance(v, tuple) and len(v) == len(v0) for v in vals):
        return tuple(merge_values([(c, v[i]) for c, v in pairs]) for i in range(len(v0)))
    if all(isinstance(v, list) and len(v) == len(v0) for v in vals):
        return [merge_values([(c, v[i]) for c, v in pairs]) for i in range(len(v0))]
    if all(isinstance(v, bool) for v in vals):
        t = [c for c, v in pairs if v]
        return SymBool(z3.Or(t)) if t else False
    if all((isinstance(v, int) and not isinstance(v, bool)) or isinstance(v, SymInt) for v in vals):
        # group equal concrete values
        groups = {}
        order = []
        for c, v in pairs:
            k = v if isinstance(v, int) else id(v)
            if k not in groups:
                groups[k] = (v, [])
                order.append(k)
            groups[k][1].append(c)
        e = zint(groups[order[-1]][0])
        for k in reversed(order[:-1]):
            v, cs = groups[k]
            e = z3.If(z3.Or(cs) if len(cs) > 1 else cs[0], zint(v), e)
        return mk_int(e)
    raise CannotMerge()


# ---------------------------------------------------------------------------
# SymTok


_COND_CACHE = {}


class SymTok:
    __slots__ = ("e", "vals", "_cc")

    def __init__(self, e, vals):
        self.e = e
        self.vals = vals
        self._cc = None

    # -- helpers
    def cond_in(self, idxs):
        idxs = sorted(idxs)
        n = len(self.vals)
        if not idxs:
            return z3.BoolVal(False)
        if len(idxs) == n:
            return z3.BoolVal(True)
        name = self._name()
        if name is not None:
            key = (name, n, tuple(idxs))
            c = _COND_CACHE.get(key)
            if c is not None:
                return c
        if len(idxs) > n // 2 and n > 2:
            s = set(idxs)
            rest = [i for i in range(n) if i not in s]
            c = z3.And([self.e != i for i in rest]) if len(rest) > 1 else (self.e != rest[0])
        else:
            c = z3.Or([self.e == i for i in idxs]) if len(idxs) > 1 else (self.e == idxs[0])
        if name is not None:
            if len(_COND_CACHE) > 200000:
                _COND_CACHE.clear()
            _COND_CACHE[key] = c
        return c

    def _name(self):
        """variable name when e is a plain Int constant (then equal names are the same variable)"""
        nm = self._cc
        if nm is None:
            e = self.e
            nm = e.decl().name() if (z3.is_const(e) and e.decl().kind() == z3.Z3_OP_UNINTERPRETED) else False
            self._cc = nm
        return nm or None

    def _where(self, pred):
        return self.cond_in([i for i, v in enumerate(self.vals) if pred(v)])

    def sbool(self, idxs):
        """SymBool / bool for `value index in idxs`"""
        idxs = list(idxs)
        if not idxs:
            return False
        if len(idxs) == len(self.vals):
            return True
        name = self._name()
        if name is None:
            return SymBool(self.cond_in(idxs))
        S = frozenset(idxs)
        cur = _eng().doms.get(name)
        if cur is not None:  # the path already narrowed this variable: implied answers need no term
            if cur <= S:
                return True
            if not (cur & S):
                return False
        return SymBool(self.cond_in(idxs), (name, len(self.vals), S))

    def _eq_cond(self, o):
        if isinstance(o, str):
            return self._where(lambda v: v == o)
        if isinstance(o, SymTok):
            if o.e is self.e or o.e.eq(self.e):
                return self.cond_in([i for i, (a, b) in enumerate(zip(self.vals, o.vals)) if a == b])
            cs = []
            for i, a in enumerate(self.vals):
                js = [j for j, b in enumerate(o.vals) if a == b]
                if js:
                    cs.append(z3.And(self.e == i, o.cond_in(js)))
            return z3.Or(cs) if cs else z3.BoolVal(False)
        if isinstance(o, SymStr):
            return o._eq_cond(self)
        return None

    def concrete(self):
        i = _eng().concretize(self.e)
        return self.vals[i]

    def live(self):
        """indices of the alternatives still feasible on this path (over-approximation)"""
        name = self._name()
        if name is not None:
            cur = _eng().doms.get(name)
            if cur is not None:
                return sorted(cur)
        return range(len(self.vals))

    def pointwise(self, fn, *others):
        """apply fn(value, *other_values) to every (still feasible) alternative and merge"""
        res = []
        errs = []
        vals = self.vals
        for i in self.live():
            v = vals[i]
            args = []
            for o in others:
                if isinstance(o, SymTok):
                    if not (o.e is self.e or o.e.eq(self.e)):
                        # different slots: fall back to concretising the other
                        o = o.concrete()
                        args.append(o)
                    else:
                        args.append(o.vals[i])
                else:
                    args.append(o)
            try:
                res.append((i, fn(v, *args)))
            except Exception as ex:  # noqa: the real str method raised for this alternative
                errs.append((i, ex))
        if errs:
            if not res or bool(self.sbool([i for i, _ in errs])):
                v = self.concrete()
                args = [o.concrete() if isinstance(o, SymTok) else o for o in others]
                return fn(v, *args)  # raises for real
        return self._merge(res)

    def _merge(self, res):
        vals = [r for _, r in res]
        r0 = vals[0]
        if all(type(r) is type(r0) and r == r0 for r in vals) and not isinstance(r0, (list, tuple)):
            return r0
        if all(isinstance(r, str) for r in vals):
            if len(res) == len(self.vals):
                return SymTok(self.e, vals)
            full = [None] * len(self.vals)
            for i, r in res:
                full[i] = r
            # infeasible alternatives keep a harmless filler
            full = [r0 if x is None else x for x in full]
            return SymTok(self.e, full)
        if all(isinstance(r, bool) for r in vals):
            # alternatives outside `res` are infeasible on this path: their truth value is irrelevant
            return self.sbool([i for i, r in res if r])
        if all(isinstance(r, int) and not isinstance(r, bool) for r in vals):
            groups = {}
            for i, r in res:
                groups.setdefault(r, []).append(i)
            items = list(groups.items())
            e = z3.IntVal(items[-1][0])
            for v, idxs in reversed(items[:-1]):
                e = z3.If(self.cond_in(idxs), z3.IntVal(v), e)
            return mk_int(e)
        if all(isinstance(r, (list, tuple)) and type(r) is type(r0) and len(r) == len(r0) for r in vals):
            out = [self._merge([(i, r[k]) for i, r in res]) for k in range(len(r0))]
            return type(r0)(out)
        # cannot merge: fork
        v = self.concrete()
        i = self.vals.index(v)
        for j, r in res:
            if j == i or self.vals[j] == v:
                return r
        raise HarnessError("SymTok merge lost alternative")

    # -- str protocol
    def __getitem__(self, k):
        if isinstance(k, slice):
            k = slice(*(None if x is None else operator.index(x) for x in (k.start, k.stop, k.step)))
        else:
            k = operator.index(k)
        return self.pointwise(lambda s: s[k])

    def __len__(self):
        r = self.pointwise(len)
        return operator.index(r)

    def __iter__(self):
        n = len(self)
        for i in range(n):
            yield self[i]

    def __eq__(self, o):
        if isinstance(o, str):
            return self.sbool([i for i, v in enumerate(self.vals) if v == o])
        c = self._eq_cond(o)
        if c is None:
            return False
        c = z3.simplify(c) if not isinstance(c, bool) else c
        if z3.is_true(c):
            return True
        if z3.is_false(c):
            return False
        return SymBool(c)

    def __ne__(self, o):
        r = self.__eq__(o)
        if isinstance(r, bool):
            return not r
        return ~r

    def __contains__(self, sub):
        return bool(self.pointwise(lambda s, x: x in s, sub))

    # ordering (hand-written scanners compare characters: "0" <= ch <= "9")
    def _order(self, op, o):
        if isinstance(o, SymStr):
            o = o.concrete()
        if not isinstance(o, (str, SymTok)):
            return NotImplemented
        return self.pointwise(op, o)

    def __lt__(self, o):
        return self._order(operator.lt, o)

    def __le__(self, o):
        return self._order(operator.le, o)

    def __gt__(self, o):
        return self._order(operator.gt, o)

    def __ge__(self, o):
        return self._order(operator.ge, o)

    def __add__(self, o):
        if isinstance(o, SymStr):
            return NotImplemented
        return self.pointwise(lambda s, x: s + x, o)

    def __radd__(self, o):
        return self.pointwise(lambda s, x: x + s, o)

    def __mul__(self, k):
        k = operator.index(k)
        return self.pointwise(lambda s: s * k)

    def __hash__(self):
        return hash(self.concrete())

    def __str__(self):
        return self.concrete()

    def __repr__(self):
        return "SymTok(%s,%r)" % (self.e, self.vals)

    def __bool__(self):
        return bool(self.pointwise(lambda s: len(s) > 0))

    def __int__(self):
        return self.pointwise(int)

    def __format__(self, spec):
        return format(self.concrete(), spec)

    def __getattr__(self, name):
        if name.startswith("__"):
            raise AttributeError(name)
        meth = getattr(str, name)  # AttributeError for unknown

        def call(*args, **kw):
            args = tuple(operator.index(a) if isinstance(a, SymInt) else a for a in args)
            return self.pointwise(lambda s, *a: meth(s, *a, **kw), *args)
        return call


def tok_from_expr(e, vals):
    """SymTok or a plain str when all alternatives are equal"""
    if all(v == vals[0] for v in vals):
        return vals[0]
    return SymTok(e, list(vals))


# ---------------------------------------------------------------------------
# SymStr


class Slot:
    __slots__ = ("var", "alts", "width", "_cache", "name")

    def __init__(self, name, alts):
        w = {len(a) for a in alts}
        assert len(w) == 1, alts
        self.name = name
        self.var = z3.Int(name)
        self.alts = list(alts)
        self.width = w.pop()
        self._cache = {}

    def cond_in(self, idxs):
        key = frozenset(idxs)
        c = self._cache.get(key)
        if c is None:
            n = len(self.alts)
            if len(key) == n:
                c = z3.BoolVal(True)
            elif not key:
                c = z3.BoolVal(False)
            elif len(key) == 1:
                c = (self.var == next(iter(key)))
            elif len(key) > n // 2:
                rest = [i for i in range(n) if i not in key]
                c = z3.And([self.var != i for i in rest]) if len(rest) > 1 else (self.var != rest[0])
            else:
                c = z3.Or([self.var == i for i in sorted(key)])
            self._cache[key] = c
        return c


class SymStr:
    """cells: list of str (one char) or (slot, off)"""
    __slots__ = ("cells",)

    def __init__(self, cells):
        out = []
        for c in cells:
            if isinstance(c, tuple):
                s, o = c
                ch = {a[o] for a in s.alts}
                if len(ch) == 1:
                    c = ch.pop()
            out.append(c)
        self.cells = out

    @staticmethod
    def lift(x):
        if isinstance(x, SymStr):
            return x
        if isinstance(x, str):
            return SymStr(list(x))
        if isinstance(x, SymTok):
            return SymStr(list(x.concrete()))
        raise TypeError(type(x))

    def is_concrete(self):
        return all(isinstance(c, str) for c in self.cells)

    def simp(self):
        return "".join(self.cells) if self.is_concrete() else self

    def slots(self):
        seen = []
        for c in self.cells:
            if isinstance(c, tuple) and c[0] not in seen:
                seen.append(c[0])
        return seen

    def __len__(self):
        return len(self.cells)

    def __iter__(self):
        for i in range(len(self.cells)):
            yield self[i]

    def __bool__(self):
        return len(self.cells) > 0

    def __getitem__(self, k):
        if isinstance(k, slice):
            k = slice(*(None if v is None else operator.index(v) for v in (k.start, k.stop, k.step)))
            return SymStr(self.cells[k]).simp()
        return SymStr([self.cells[operator.index(k)]]).simp()

    # ---- equality
    def _eq_cond(self, o):
        if isinstance(o, str):
            if len(o) != len(self.cells):
                return z3.BoolVal(False)
            per_slot = {}
            for c, ch in zip(self.cells, o):
                if isinstance(c, str):
                    if c != ch:
                        return z3.BoolVal(False)
                else:
                    per_slot.setdefault(c[0], []).append((c[1], ch))
            conds = []
            for s, reqs in per_slot.items():
                idxs = [i for i, a in enumerate(s.alts) if all(a[o_] == ch for o_, ch in reqs)]
                if not idxs:
                    return z3.BoolVal(False)
                conds.append(s.cond_in(idxs))
            if not conds:
                return z3.BoolVal(True)
            return z3.And(conds) if len(conds) != 1 else conds[0]
        if isinstance(o, SymTok):
            cs = []
            groups = {}
            for i, v in enumerate(o.vals):
                groups.setdefault(v, []).append(i)
            for v, idxs in groups.items():
                c = self._eq_cond(v)
                if not z3.is_false(c):
                    cs.append(z3.And(c, o.cond_in(idxs)))
            return z3.Or(cs) if cs else z3.BoolVal(False)
        if isinstance(o, SymStr):
            if len(o) != len(self):
                return z3.BoolVal(False)
            conds = []
            for a, b in zip(self.cells, o.cells):
                if isinstance(a, str) and isinstance(b, str):
                    if a != b:
                        return z3.BoolVal(False)
                elif isinstance(a, str):
                    conds.append(SymStr([b])._eq_cond(a))
                elif isinstance(b, str):
                    conds.append(SymStr([a])._eq_cond(b))
                else:
                    (s1, o1), (s2, o2) = a, b
                    if s1 is s2 and o1 == o2:
                        continue
                    alts = []
                    for ch in {x[o1] for x in s1.alts} & {x[o2] for x in s2.alts}:
                        alts.append(z3.And(SymStr([a])._eq_cond(ch), SymStr([b])._eq_cond(ch)))
                    conds.append(z3.Or(alts) if alts else z3.BoolVal(False))
            return z3.And(conds) if conds else z3.BoolVal(True)
        return None

    def _one_slot_dom(self, pred_on_alt):
        """dom tuple when this string involves exactly one slot"""
        sl = self.slots()
        if len(sl) != 1:
            return None
        s = sl[0]
        return (s.name, len(s.alts), frozenset(i for i, a in enumerate(s.alts) if pred_on_alt(s, a)))

    def _render(self, s, alt):
        return "".join(c if isinstance(c, str) else alt[c[1]] for c in self.cells)

    def __eq__(self, o):
        c = self._eq_cond(o)
        if c is None:
            return False
        if z3.is_true(c):
            return True
        if z3.is_false(c):
            return False
        dom = None
        if isinstance(o, str):
            dom = self._one_slot_dom(lambda s, a: self._render(s, a) == o)
        return SymBool(c, dom)

    def __ne__(self, o):
        r = self.__eq__(o)
        if isinstance(r, bool):
            return not r
        return ~r

    def __lt__(self, o):
        return self.concrete() < (o.concrete() if isinstance(o, (SymStr, SymTok)) else o)

    def __le__(self, o):
        return self.concrete() <= (o.concrete() if isinstance(o, (SymStr, SymTok)) else o)

    def __gt__(self, o):
        return self.concrete() > (o.concrete() if isinstance(o, (SymStr, SymTok)) else o)

    def __ge__(self, o):
        return self.concrete() >= (o.concrete() if isinstance(o, (SymStr, SymTok)) else o)

    def _pred(self, f):
        """str predicate semantics: non-empty and all chars satisfy f"""
        if not self.cells:
            return False
        conds = []
        for c in self.cells:
            if isinstance(c, str):
                if not f(c):
                    return False
            else:
                s, o = c
                idxs = [i for i, a in enumerate(s.alts) if f(a[o])]
                if not idxs:
                    return False
                if len(idxs) != len(s.alts):
                    conds.append(s.cond_in(idxs))
        if not conds:
            return True
        dom = self._one_slot_dom(lambda s, a: all(f(ch) for ch in self._render(s, a)))
        return SymBool(z3.And(conds) if len(conds) > 1 else conds[0], dom)

    def isalpha(self):
        return self._pred(str.isalpha)

    def isdigit(self):
        return self._pred(str.isdigit)

    def isnumeric(self):
        return self._pred(str.isnumeric)

    def isdecimal(self):
        return self._pred(str.isdecimal)

    def isspace(self):
        return self._pred(str.isspace)

    def islower(self):
        return self.concrete().islower()

    def isupper(self):
        return self.concrete().isupper()

    def capitalize(self):
        return self.concrete().capitalize()

    def lower(self):
        return self.concrete().lower()

    def upper(self):
        return self.concrete().upper()

    def strip(self, *a):
        return self.concrete().strip(*a)

    def __add__(self, o):
        return SymStr(self.cells + SymStr.lift(o).cells).simp()

    def __radd__(self, o):
        return SymStr(SymStr.lift(o).cells + self.cells).simp()

    def __mul__(self, k):
        return SymStr(self.cells * operator.index(k)).simp()

    __rmul__ = __mul__

    def find(self, sub, start=0, end=None):
        if isinstance(sub, SymTok):
            sub = sub.concrete()
        start = operator.index(start)
        n = len(self.cells)
        end = n if end is None else min(n, operator.index(end))
        if start < 0:
            start = max(0, n + start)
        m = len(sub)
        if m == 0:
            return start if start <= n else -1
        for p in range(start, end - m + 1):
            if bool(self[p:p + m] == sub):
                return p
        return -1

    def index(self, sub, *a):
        r = self.find(sub, *a)
        if r == -1:
            raise ValueError("substring not found")
        return r

    def _adjust(self, start, end):
        """CPython's ADJUST_INDICES"""
        n = len(self.cells)
        end = n if end is None else operator.index(end)
        start = 0 if start is None else operator.index(start)
        if end > n:
            end = n
        elif end < 0:
            end = max(0, end + n)
        if start < 0:
            start = max(0, start + n)
        return start, end

    def _window(self, start, end):
        if start is None and end is None:
            return self
        a, b = self._adjust(start, end)
        return SymStr.lift(self[a:b]) if a < b else SymStr([])

    def _tailmatch(self, sub, start, end, at_start):
        if isinstance(sub, tuple):
            return any(bool(self._tailmatch(x, start, end, at_start)) for x in sub)
        if isinstance(sub, SymTok):
            sub = sub.concrete()
        a, b = self._adjust(start, end)
        m = len(sub)
        if b - m < a:
            return False
        if m == 0:
            return True
        return (self[a:a + m] if at_start else self[b - m:b]) == sub

    def startswith(self, pre, start=None, end=None):
        return self._tailmatch(pre, start, end, True)

    def endswith(self, suf, start=None, end=None):
        return self._tailmatch(suf, start, end, False)

    def __contains__(self, sub):
        if isinstance(sub, SymTok):
            sub = sub.concrete()
        if isinstance(sub, (str, SymStr)):
            m = len(sub)
            if m == 0:
                return True
            for p in range(0, len(self.cells) - m + 1):
                if bool(self[p:p + m] == sub):
                    return True
            return False
        raise TypeError("'in <string>' requires string as left operand")

    def count(self, sub, start=None, end=None):
        if start is not None or end is not None:
            return self._window(start, end).count(sub)
        if len(sub) != 1:
            return self.concrete().count(sub)
        tot = 0
        for i in range(len(self.cells)):
            c = self[i] == sub
            if isinstance(c, SymBool):
                tot = tot + SymInt(z3.If(c.e, 1, 0))
            elif c:
                tot = tot + 1
        return tot

    def split(self, sep=None, maxsplit=-1):
        if sep is None or len(sep) != 1 or maxsplit != -1:
            return self.concrete().split(sep, maxsplit)
        parts = []
        cur = []
        for i in range(len(self.cells)):
            if bool(self[i] == sep):
                parts.append(SymStr(cur).simp())
                cur = []
            else:
                cur.append(self.cells[i])
        parts.append(SymStr(cur).simp())
        return parts

    def concrete(self):
        eng = _eng()
        out = []
        pinned = {}
        for c in self.cells:
            if isinstance(c, str):
                out.append(c)
            else:
                s, o = c
                if s not in pinned:
                    pinned[s] = eng.concretize(s.var)
                out.append(s.alts[pinned[s]][o])
        return "".join(out)

    def __hash__(self):
        return hash(self.concrete())

    def __str__(self):
        return self.concrete()

    def __repr__(self):
        return "SymStr(%r)" % ("".join(c if isinstance(c, str) else "{%s.%d}" % (c[0].name, c[1]) for c in self.cells),)

    def __int__(self):
        return int(self.concrete())

    def __format__(self, spec):
        return format(self.concrete(), spec)

    def __getattr__(self, name):
        if name.startswith("__"):
            raise AttributeError(name)
        meth = getattr(str, name)

        def call(*args, **kw):
            return meth(self.concrete(), *args, **kw)
        return call


def proxy_fault(ex):
    """did this exception come out of the proxies themselves (an operation of str / int / dict that the proxy does not
    imitate), rather than out of the code under test?  Judged by where it was raised.  Such a path is re-run with the
    input pinned to concrete values (forking over them: more paths, same meaning) instead of being judged."""
    if not isinstance(ex, (TypeError, AttributeError, NotImplementedError)):
        return False
    msg = str(ex)
    if any(n in msg for n in ("SymStr", "SymTok", "SymInt", "SymBool", "TokStr", "TokFrag", "SDict", "SSet", "STuple", "SPattern", "LazyNoNop")):
        return True   # C code (str.join, re, int(), ...) refused a proxy by its type name
    tb, last = ex.__traceback__, None
    while tb is not None:
        last, tb = tb, tb.tb_next
    if last is None:
        return False
    f = last.tb_frame.f_code.co_filename.replace("\\", "/")
    return f.endswith("/vf/symstr.py") or f.endswith("/vf/engine.py")


def pin(x):
    """deep copy of x with every proxy replaced by its concrete value on this path (forks over the values)"""
    if isinstance(x, TokStr):
        return x.as_plain_str()
    if isinstance(x, (SymStr, SymTok)):
        return x.concrete()
    if isinstance(x, SymBool):
        return bool(x)
    if isinstance(x, SymInt):
        return int(x)
    if isinstance(x, list):
        return [pin(y) for y in x]
    if isinstance(x, tuple):
        return tuple(pin(y) for y in x)
    if isinstance(x, dict):
        return {pin(k): pin(v) for k, v in x.items()}
    return x


PROXY_FALLBACKS = [0]


def robust_call(fn, *args, **kw):
    """fn(*args, **kw); if a proxy (not the code under test) raises, once more with pinned arguments"""
    try:
        return fn(*args, **kw)
    except Exception as ex:  # noqa
        if not proxy_fault(ex):
            raise
    PROXY_FALLBACKS[0] += 1
    return fn(*[pin(a) for a in args], **{k: pin(v) for k, v in kw.items()})


def model_value(model, x):
    """concrete python value of a proxy under a z3 model"""
    if isinstance(x, SymInt):
        return model.eval(x.e, model_completion=True).as_long()
    if isinstance(x, SymBool):
        return z3.is_true(model.eval(x.e, model_completion=True))
    if isinstance(x, SymTok):
        return x.vals[model.eval(x.e, model_completion=True).as_long()]
    if isinstance(x, SymStr):
        out = []
        for c in x.cells:
            if isinstance(c, str):
                out.append(c)
            else:
                s, o = c
                out.append(s.alts[model.eval(s.var, model_completion=True).as_long()][o])
        return "".join(out)
    if isinstance(x, (list, tuple)):
        return type(x)(model_value(model, y) for y in x)
    if isinstance(x, dict):
        return {model_value(model, k): model_value(model, v) for k, v in x.items()}
    return x


# ---------------------------------------------------------------------------
# injected builtins


def is_sym(x):
    return isinstance(x, (SymStr, SymTok, SymInt, SymBool))


def sym_format(fmt, *args, **kw):
    allv = list(args) + list(kw.values())
    if not any(is_sym(a) for a in allv):
        return fmt.format(*args, **kw)
    toks = [a for a in allv if isinstance(a, SymTok)]
    if toks and not any(isinstance(a, SymStr) for a in allv):
        t0 = toks[0]
        if all(t.e is t0.e or t.e.eq(t0.e) for t in toks):
            vals = []
            for i in range(len(t0.vals)):
                a_ = [a.vals[i] if isinstance(a, SymTok) else a for a in args]
                k_ = {k: (v.vals[i] if isinstance(v, SymTok) else v) for k, v in kw.items()}
                vals.append(fmt.format(*a_, **k_))
            return tok_from_expr(t0.e, vals)
        a_ = [a.concrete() if isinstance(a, SymTok) else a for a in args]
        k_ = {k: (v.concrete() if isinstance(v, SymTok) else v) for k, v in kw.items()}
        return fmt.format(*a_, **k_)
    cells = []
    auto = 0
    for lit, field, spec, conv in string.Formatter().parse(fmt):
        cells.extend(lit)
        if field is None:
            continue
        if field == "":
            v = args[auto]
            auto += 1
        elif field.isdigit():
            v = args[int(field)]
        else:
            v = kw[field]
        if isinstance(v, SymStr) and not spec and not conv:
            cells.extend(v.cells)
        elif isinstance(v, SymTok):
            cells.extend(format(v.concrete(), spec or ""))
        else:
            cells.extend(format(v, spec or ""))
    return SymStr(cells).simp()


def sym_join(sep, items):
    items = list(items)
    if not any(isinstance(a, (SymStr, SymTok)) for a in items):
        return sep.join(items)
    cells = []
    for i, it in enumerate(items):
        if i:
            cells.extend(sep)
        cells.extend(SymStr.lift(it).cells)
    return SymStr(cells).simp()


def sym_isinstance(o, t):
    if isinstance(t, tuple):
        return any(sym_isinstance(o, x) for x in t)
    if t is sym_str:
        t = str
    elif t is sym_int:
        t = int
    if isinstance(o, (SymStr, SymTok)):
        return t is str or t is object
    if isinstance(o, SymInt):
        return t is int or t is object
    if isinstance(o, SymBool):
        return t in (bool, int, object)
    return isinstance(o, t)


class _SymIntMeta(type):
    def __instancecheck__(cls, o):
        return isinstance(o, (int, SymInt))


def sym_int(x=0, *a):
    if isinstance(x, SymInt):
        return x
    if isinstance(x, SymBool):
        return mk_int(z3.If(x.e, 1, 0))
    if isinstance(x, SymTok):
        return x.pointwise(lambda s: int(s, *a))
    if isinstance(x, SymStr):
        return int(x.concrete(), *a)
    return int(x, *a)


def sym_str(x=""):
    if isinstance(x, (SymStr, SymTok)):
        return x
    if isinstance(x, SymInt):
        return str(int(x))
    if not isinstance(x, (str, int, float)) and type(x).__str__ is not object.__str__:
        r = type(x).__str__(x)
        return r
    return str(x)


def sym_len(x):
    return len(x)


# ---------------------------------------------------------------------------
# containers


_MERGE_CACHE = {}


class SDict(dict):
    """dict whose look-ups accept symbolic string keys (merging the hits).  A wrapped collections.defaultdict keeps
    its default factory (missing keys are inserted exactly as the original would)."""
    _factory = None

    def __missing__(self, key):
        if self._factory is None:
            raise KeyError(key)
        v = self._factory()
        dict.__setitem__(self, key, v)
        return v

    def _hits(self, k):
        if isinstance(k, SymTok):
            groups = {}
            for i in k.live():
                groups.setdefault(k.vals[i], []).append(i)
            return [(v, k.cond_in(idxs)) for v, idxs in groups.items() if dict.__contains__(self, v)]
        out = []
        for key in dict.keys(self):
            if isinstance(key, str):
                c = k._eq_cond(key)
                if c is not None and not z3.is_false(c):
                    out.append((key, c))
        return out

    def _has(self, k):
        if isinstance(k, SymTok):
            return bool(k.sbool([i for i, v in enumerate(k.vals) if dict.__contains__(self, v)]))
        hits = [c for _, c in self._hits(k)]
        return _eng().branch(z3.Or(hits) if hits else z3.BoolVal(False))

    def __contains__(self, k):
        if not isinstance(k, (SymStr, SymTok)):
            if isinstance(k, SymInt):
                k = int(k)
            return dict.__contains__(self, k)
        return self._has(k)

    def __getitem__(self, k):
        if not isinstance(k, (SymStr, SymTok)):
            if isinstance(k, SymInt):
                k = int(k)
            return dict.__getitem__(self, k)
        if not self._has(k):
            if self._factory is not None:
                return self.__missing__(k.concrete())
            raise KeyError(k)
        hits = self._hits(k)
        if len(hits) == 1:
            return dict.__getitem__(self, hits[0][0])
        vals = [dict.__getitem__(self, key) for key, _ in hits]
        ck = None
        if isinstance(k, SymTok) and k._name() is not None:
            ck = (id(self), k._name(), len(k.vals), tuple(k.live()), tuple(key for key, _ in hits), tuple(map(id, vals)))
            got = _MERGE_CACHE.get(ck)
            if got is not None:
                if got is CannotMerge:
                    return dict.__getitem__(self, k.concrete())
                return got[0]
        try:
            r = merge_values([(c, v) for (key, c), v in zip(hits, vals)])
            if ck is not None:
                if len(_MERGE_CACHE) > 50000:
                    _MERGE_CACHE.clear()
                _MERGE_CACHE[ck] = (r, vals)  # vals kept alive so that the ids in the key stay valid
            return r
        except CannotMerge:
            if ck is not None:
                _MERGE_CACHE[ck] = CannotMerge
            return dict.__getitem__(self, k.concrete())

    def get(self, k, d=None):
        if not isinstance(k, (SymStr, SymTok)):
            if isinstance(k, SymInt):
                k = int(k)
            return dict.get(self, k, d)
        hits = self._hits(k)
        if not hits:
            return d
        pairs = [(c, dict.__getitem__(self, key)) for key, c in hits] + [(z3.BoolVal(True), d)]
        try:
            # first-match-wins ite chain; conds are mutually exclusive
            if all(isinstance(v, int) and not isinstance(v, bool) or isinstance(v, SymInt) for _, v in pairs):
                return engine.ite_int(pairs[:-1], d)
            return merge_values_ordered(pairs)
        except CannotMerge:
            if k in self:
                return self[k]
            return d

    def __setitem__(self, k, v):
        if isinstance(k, (SymStr, SymTok)):
            k = k.concrete()
        elif isinstance(k, SymInt):
            k = int(k)
        dict.__setitem__(self, k, v)

    def setdefault(self, k, d=None):
        if isinstance(k, (SymStr, SymTok)):
            k = k.concrete()
        return dict.setdefault(self, k, d)

    def pop(self, k, *a):
        if isinstance(k, (SymStr, SymTok)):
            k = k.concrete()
        return dict.pop(self, k, *a)


def merge_values_ordered(pairs):
    vals = [v for _, v in pairs]
    v0 = vals[0]
    if all(type(v) is type(v0) and v == v0 for v in vals):
        return v0
    raise CannotMerge()


class SSet(frozenset):
    def __contains__(self, k):
        if not isinstance(k, (SymStr, SymTok)):
            return frozenset.__contains__(self, k)
        if isinstance(k, SymTok):
            idxs = [i for i, v in enumerate(k.vals) if frozenset.__contains__(self, v)]
            return bool(k.sbool(idxs))
        hits = []
        for key in frozenset.__iter__(self):
            if isinstance(key, str):
                c = k._eq_cond(key)
                if c is not None and not z3.is_false(c):
                    hits.append(c)
        return _eng().branch(z3.Or(hits) if hits else z3.BoolVal(False))


class STuple(tuple):
    """tuple of strings indexable by a SymInt (gives a SymTok)"""

    def __getitem__(self, k):
        if isinstance(k, SymInt):
            n = tuple.__len__(self)
            if _eng().branch(z3.And(k.e >= 0, k.e < n)):
                vals = list(tuple.__iter__(self))
                if all(isinstance(v, str) for v in vals):
                    return tok_from_expr(k.e, vals)
            return tuple.__getitem__(self, int(k))
        r = tuple.__getitem__(self, k)
        return r


class SPattern:
    """compiled regex; matching a symbolic string forks over its concrete values"""

    def __init__(self, p):
        self.p = p
        self.pattern = p.pattern

    def match(self, s, *a):
        if isinstance(s, (SymStr, SymTok)):
            s = s.concrete()
        return self.p.match(s, *a)

    def __getattr__(self, n):
        return getattr(self.p, n)


# ---------------------------------------------------------------------------
# instrumented loader


class _Rewrite(ast.NodeTransformer):
    def visit_Call(self, node):
        self.generic_visit(node)
        f = node.func
        if isinstance(f, ast.Attribute) and isinstance(f.value, ast.Constant) and isinstance(f.value.value, str):
            if f.attr == "format":
                return ast.copy_location(
                    ast.Call(ast.Name("__sym_format__", ast.Load()), [f.value] + node.args, node.keywords), node)
            if f.attr == "join":
                return ast.copy_location(
                    ast.Call(ast.Name("__sym_join__", ast.Load()), [f.value] + node.args, node.keywords), node)
        return node

    def visit_Compare(self, node):
        self.generic_visit(node)
        if len(node.ops) == 1 and isinstance(node.ops[0], (ast.In, ast.NotIn)):
            call = ast.Call(ast.Name("__sym_in__", ast.Load()), [node.left, node.comparators[0]], [])
            if isinstance(node.ops[0], ast.NotIn):
                call = ast.UnaryOp(ast.Not(), call)
            return ast.copy_location(call, node)
        return node


def sym_in(a, b):
    """`a in b`; only differs from the builtin when b is a real str and a is a proxy
    (str.__contains__ rejects non-str operands before any reflected hook can run)"""
    if isinstance(b, str) and isinstance(a, SymTok):
        return bool(a.pointwise(lambda s: s in b))
    if isinstance(b, str) and isinstance(a, SymStr):
        if len(a.cells) == 1 and isinstance(a.cells[0], tuple):
            sl, o = a.cells[0]
            idxs = [i for i, alt in enumerate(sl.alts) if alt[o] in b]
            return _eng().branch(sl.cond_in(idxs), (sl.name, len(sl.alts), frozenset(idxs)))
        return a.concrete() in b
    return a in b


INJECTED = {"__sym_format__": sym_format, "__sym_join__": sym_join, "__sym_in__": sym_in,
            "min": sym_min, "max": sym_max, "isinstance": sym_isinstance,
            "str": sym_str, "int": sym_int}

WRAPPED = []  # filled by load_instrumented: names actually wrapped (for evidence)
FILES = {}    # module name -> file path


def load_instrumented(repo="/repo", pkg="selfies"):
    """import /repo/selfies (current working tree) through the instrumenting hook.
    Returns the package module."""
    root = os.path.join(repo, pkg)

    class Loader(importlib.abc.SourceLoader):
        def __init__(self, path):
            self.path = path

        def get_filename(self, fullname):
            return self.path

        def get_data(self, path):
            with open(path, "rb") as f:
                return f.read()

        def path_stats(self, path):
            raise OSError  # never use a cached .pyc: always re-read the source

        def source_to_code(self, data, path, *, _optimize=-1):
            tree = ast.parse(data, path)
            tree = ast.fix_missing_locations(_Rewrite().visit(tree))
            return compile(tree, path, "exec", dont_inherit=True)

        def exec_module(self, module):
            module.__dict__.update(INJECTED)
            FILES[module.__name__] = self.path
            super().exec_module(module)

    class Finder(importlib.abc.MetaPathFinder):
        def find_spec(self, fullname, path, target=None):
            if fullname != pkg and not fullname.startswith(pkg + "."):
                return None
            rel = fullname.split(".")[1:]
            d = os.path.join(root, *rel)
            if os.path.isdir(d):
                p = os.path.join(d, "__init__.py")
                return importlib.util.spec_from_file_location(
                    fullname, p, loader=Loader(p), submodule_search_locations=[d])
            p = d + ".py"
            if os.path.exists(p):
                return importlib.util.spec_from_file_location(fullname, p, loader=Loader(p))
            return None

    for m in [m for m in sys.modules if m == pkg or m.startswith(pkg + ".")]:
        del sys.modules[m]
    sys.meta_path.insert(0, Finder())
    sys.dont_write_bytecode = True
    sf = importlib.import_module(pkg)

    def M(n):
        return sys.modules.get(pkg + "." + n)

    def wrap(mod, name, ctor):
        if mod is not None and hasattr(mod, name):
            cur = getattr(mod, name)
            if not isinstance(cur, (SDict, SSet, STuple, SPattern)):
                new = ctor(cur)
                if isinstance(new, SDict) and getattr(cur, "default_factory", None) is not None:
                    new._factory = cur.default_factory
                setattr(mod, name, new)
            WRAPPED.append("%s.%s" % (mod.__name__, name))

    gr, su, mg, bc, co = M("grammar_rules"), M("utils.smiles_utils"), M("mol_graph"), M("bond_constraints"), M("constants")
    cp = M("compatibility")
    del WRAPPED[:]
    for name in ("_PROCESS_ATOM_CACHE", "_PROCESS_BRANCH_CACHE", "_PROCESS_RING_CACHE", "INDEX_CODE"):
        wrap(gr, name, SDict)
    wrap(gr, "INDEX_ALPHABET", STuple)
    wrap(gr, "SELFIES_ATOM_PATTERN", SPattern)
    for mod in (gr, su, bc):
        for name in ("ORGANIC_SUBSET", "AROMATIC_SUBSET", "ELEMENTS", "SMILES_STEREO_BONDS"):
            wrap(mod, name, SSet)
    wrap(su, "SMILES_BRACKETED_ATOM_PATTERN", SPattern)
    wrap(su, "SMILES_BOND_ORDERS", SDict)
    wrap(mg, "AROMATIC_VALENCES", SDict)
    wrap(mg, "VALENCE_ELECTRONS", SDict)
    wrap(cp, "_SYMBOL_UPDATE_TABLE", SDict)
    return sf


def make_slots(prefix, slots_alts):
    """slots_alts: list of alternative lists (mixed widths allowed).  Forks
    eagerly on the width class of each position.  Returns a SymStr/str."""
    eng = _eng()
    cells = []
    for j, alts in enumerate(slots_alts):
        if isinstance(alts, str):
            cells.extend(alts)
            continue
        widths = sorted({len(a) for a in alts})
        if len(widths) > 1:
            v = z3.Int("%s%d_w" % (prefix, j))
            eng.assume(z3.And(v >= 0, v < len(widths)))
            wi = eng.concretize(v)
        else:
            wi = 0
        w = widths[wi]
        sub = [a for a in alts if len(a) == w]
        if w == 0:
            continue
        s = Slot("%s%d_%d" % (prefix, j, w), sub)
        eng.assume(z3.And(s.var >= 0, s.var < len(sub)))
        for o in range(w):
            cells.append((s, o))
    return SymStr(cells).simp()


def make_tokens(prefix, n, alphabet):
    """n SymToks over one alphabet"""
    eng = _eng()
    out = []
    alphabet = list(alphabet)
    for i in range(n):
        key = ("%s%d" % (prefix, i), len(alphabet))
        ent = _TOKVARS.get(key)
        if ent is None:
            v = z3.Int(key[0])
            ent = _TOKVARS[key] = (v, z3.And(v >= 0, v < len(alphabet)))
        eng.assume(ent[1])
        out.append(SymTok(ent[0], alphabet))
    return out


_TOKVARS = {}


class TokFrag(list):
    """one '.'-fragment of a TokStr: a list of symbols (so that the real _tokenize_selfies iterates it through its
    `list` branch) that also answers the substring test `"text" in fragment` the way the fragment's string would"""

    def _items(self):
        return list(list.__iter__(self))

    def __contains__(self, sub):
        if isinstance(sub, str) and "][" not in sub:
            for t in self._items():
                if isinstance(t, str):
                    if sub in t:
                        return True
                elif sub in t:   # SymTok.__contains__ (decided on the path)
                    return True
            return False
        if isinstance(sub, str):
            return sub in "".join(str(t) for t in self._items())
        return list.__contains__(self, sub)

    def __str__(self):
        return "".join(str(t) for t in self._items())

    def count(self, sub):
        """occurrences of a substring in the fragment's text (never across symbols: they are bracketed)"""
        tot = 0
        for t in self._items():
            tot = tot + (t.count(sub) if isinstance(t, str) else t.pointwise(lambda v: v.count(sub)))
        return tot


class TokStr:
    """A SELFIES string given as a list of SymTok / str symbols (model M-TOK).
    Passed to the real decoder: `.split(".")` forks on which tokens are dots and
    returns the fragments as lists, which the real _tokenize_selfies accepts
    through its `list` branch."""

    def __init__(self, toks):
        self.toks = list(toks)

    FRAG = None  # fragment class (overridable)

    def split(self, sep):
        assert sep == "."
        parts = []
        cur = []
        for t in self.toks:
            if bool(t == "."):
                parts.append(cur)
                cur = []
            else:
                cur.append(t)
        parts.append(cur)
        F = self.FRAG or TokFrag
        return [F(p) for p in parts]

    def as_plain_str(self):
        """the string itself, every symbol pinned (forks over what the path leaves open)"""
        return "".join(t if isinstance(t, str) else str(t) for t in self.toks)

    def __repr__(self):
        return "TokStr(%r)" % (self.toks,)

    def __format__(self, spec):
        return "<symbolic selfies>"

    def __str__(self):
        return "<symbolic selfies>"
