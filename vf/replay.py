"""Replayer: evaluates concrete cases against the pristine selfies package.
Run as: /venv/bin/python -m vf.replay cases.json verdicts.json   (PYTHONPATH=/repo:/verif)
or:     /venv/bin/python -m vf.replay --show file.json            (a saved VIOLATION replay file)
"""
import json
import sys
import traceback


def main(argv):
    from . import concrete
    if argv and argv[0] == "--show":
        d = json.load(open(argv[1]))
        v = concrete.check_case(d["case"])
        print(json.dumps({"case": d["case"], "verdict": v}, indent=1, default=str))
        return 1 if v.get("violation") else 0
    fin, fout = argv
    cases = json.load(open(fin))
    out = []
    for c in cases:
        try:
            v = concrete.check_case(c)
        except BaseException as ex:  # noqa
            v = {"violation": False, "error": True,
                 "detail": "concrete oracle crashed: %r\n%s" % (ex, traceback.format_exc(limit=6))}
        out.append(v)
    with open(fout, "w") as f:
        json.dump(out, f, default=str)
    return 0


if __name__ == "__main__":
    sys.exit(main(sys.argv[1:]))
