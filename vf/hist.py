"""Call histories over the configuration API (model M-HIST), shared by the symbolic
harnesses (C11, C12) and the concrete replayer.  Pure Python: values may be ints or
pathsym proxies; comparisons are returned as-is (bool or SymBool)."""

PRESETS = ("default", "octet_rule", "hypervalent")
BONDS = (("", 1), ("=", 2), ("#", 3))
DOC_INDEX = ["[C]", "[Ring1]", "[Ring2]", "[Branch1]", "[=Branch1]", "[#Branch1]", "[Branch2]",
             "[=Branch2]", "[#Branch2]", "[O]", "[N]", "[=N]", "[=C]", "[#C]", "[S]", "[P]"]
# elements no table of these histories lists: each is used for one probe only, so that its capacity has never been looked
# up (and cached) before the call under observation
FRESH_ELEMENTS = ["Sn", "Ge", "Pb", "Se", "Te", "As", "Sb", "Bi"]
FIXED = set(DOC_INDEX) | {"[%sBranch%d]" % (b, i) for b in ("", "=", "#") for i in (1, 2, 3)} | \
    {"[%sRing%d]" % (b, i) for b in ("", "=") for i in (1, 2, 3)}

INVALID_DICTS = {
    "missing_q": {"C": 4, "N": 3},
    "bad_key_trailing_sign": {"C+": 4, "?": 8},
    "bad_key_no_element": {"+1": 4, "?": 8},
    "bad_key_unknown_element": {"Xx": 4, "?": 8},
    "bad_key_two_signs": {"C+-1": 4, "?": 8},
    "bad_key_digit": {"C1": 4, "?": 8},
    "float_value": {"C": 1.5, "?": 8},
    "str_value": {"C": "3", "?": 8},
    "negative_value": {"C": -1, "?": 8},
    "valid_then_invalid": {"?": 5, "C": 2, "N": 1, "Xx": 1},
}
WRONG_TYPES = {"list": [("C", 4)], "none": None, "int": 4, "tuple": ("default",)}


class Api:
    """the seven public functions under test"""
    def __init__(self, set_, get, get_preset, get_alphabet, decoder, encoder, DecoderError, EncoderError):
        self.set, self.get, self.get_preset, self.get_alphabet = set_, get, get_preset, get_alphabet
        self.decoder, self.encoder = decoder, encoder
        self.DecoderError, self.EncoderError = DecoderError, EncoderError


class State:
    """what the documentation says the library's state is after the history so far"""
    def __init__(self, presets0):
        self.presets0 = {k: dict(v) for k, v in presets0.items()}
        self.cur = dict(presets0["default"])
        self.passed = None      # the dict object given to the last accepted set()
        self.alpha_dirty = False  # a caller mutated a returned alphabet since the last accepted set()
        self.problems = []      # (text, condition) - condition True/SymBool means "violated"
        self.log = []

    def problem(self, text, cond=True):
        if cond is False:
            return
        self.problems.append((text, cond))


def apply_op(api, st, op):
    """apply one operation of a history; records problems seen while doing so"""
    kind = op["op"]
    st.log.append(op)
    if kind == "set_preset":
        try:
            api.set(op["name"])
            if op["name"] not in PRESETS:
                st.problem("set(%r) was accepted" % op["name"])
            else:
                st.cur = dict(st.presets0[op["name"]])
                st.passed = None
                st.alpha_dirty = False
        except ValueError:
            if op["name"] in PRESETS:
                st.problem("set(%r) was rejected" % op["name"])
    elif kind == "set_dict":
        d = dict(op["table"])
        valid = op.get("valid")  # None = decided by the library (values may be symbolic); checked against the doc rule below
        try:
            api.set(d)
            accepted = True
        except ValueError:
            accepted = False
        # documented rule: all values are ints >= 0 and '?' present
        if accepted:
            for k, v in d.items():
                st.problem("set accepted a negative capacity for %s" % k, v < 0)
            st.cur = dict(d)
            st.passed = d
            st.alpha_dirty = False
        else:
            # rejection is only legitimate if some value is negative
            legit = False
            for k, v in d.items():
                c = v < 0
                legit = c if legit is False else (legit | c)
            st.problem("set rejected a table with non-negative integer capacities", (~legit) if not isinstance(legit, bool) else (not legit))
    elif kind == "set_invalid":
        d = dict(INVALID_DICTS[op["which"]])
        try:
            api.set(d)
            st.problem("set accepted an invalid table (%s)" % op["which"])
            st.cur = dict(d)
        except ValueError:
            pass
    elif kind == "set_wrongtype":
        try:
            api.set(WRONG_TYPES[op["which"]])
            st.problem("set accepted a %s" % op["which"])
        except ValueError:
            pass
    elif kind == "get_mutate":
        g = api.get()
        g["C"] = 99
        g["Zz"] = 1
        g.pop("?", None)
    elif kind == "preset_mutate":
        try:
            p = api.get_preset(op["name"])
            if op["name"] not in PRESETS:
                st.problem("get_preset(%r) returned a table" % op["name"])
            p["C"] = 0
            p["Zz+1"] = 3
            p.pop("?", None)
        except ValueError:
            if op["name"] in PRESETS:
                st.problem("get_preset(%r) raised" % op["name"])
    elif kind == "alphabet_mutate":
        a = api.get_alphabet()
        st.alpha_dirty = True
        a.add("[Zz]")
        a.discard("[Ring1]")
        a.discard("[=N]")
    elif kind == "mutate_passed":
        if st.passed is not None:
            st.passed["C"] = 77
            st.passed["?"] = 0
            st.passed["Zz"] = 5
    elif kind == "edit_and_reset":
        # the caller edits the dict it passed before (valid values) and passes the same object again
        if st.passed is not None and "Zz" not in st.passed:
            d = st.passed
            d["C"] = 1 if d.get("C") != 1 else 2
            d["N+1"] = 1 if d.get("N+1") != 1 else 3
            try:
                api.set(d)
                st.cur = dict(d)
                st.alpha_dirty = False
            except ValueError:
                st.problem("set rejected the edited (valid) table passed again as the same object")
    elif kind == "decode":
        try:
            api.decoder(op["x"])
        except api.DecoderError:
            pass
    elif kind == "encode":
        try:
            api.encoder(op["s"], strict=bool(op.get("strict", False)))
        except api.EncoderError:
            pass
    else:
        raise ValueError("unknown op %r" % (kind,))


def probe_unlisted(api, st, step, derive, read_smiles, compare, decode=None):
    """decode [E][#C] for an element E that no table lists and that was never translated before in this history: the
    result must be what the documented derivation gives under the table last accepted ('?' entry for E)"""
    toks = ["[%s]" % FRESH_ELEMENTS[step % len(FRESH_ELEMENTS)], "[#C]"]
    try:
        out = (decode or api.decoder)("".join(toks))
    except api.DecoderError:
        st.problem("decoder(%r) raised DecoderError under the table last accepted" % "".join(toks))
        return
    except Exception as ex:  # noqa  (an exception of the package, e.g. a table left without '?': judged, not a harness error)
        st.problem("decoder(%r) raised %s under the table last accepted" % ("".join(toks), type(ex).__name__))
        return
    d = derive(toks, st.cur)
    if d.error is not None:
        st.problem("probe outside the grammar?")
        return
    out = str(out)
    pb = compare(d, read_smiles(out)) if out else (None if not d.atoms else "empty output")
    if pb:
        st.problem("decoder(%r) = %r does not follow the table last accepted (unlisted element, '?' entry): %s" % ("".join(toks), out, pb))


def observe(api, st, alphabet=True):
    """compare what the getters return with the documented state"""
    got = api.get()
    if set(got) != set(st.cur):
        st.problem("get_semantic_constraints() has keys %s, expected %s after %s" % (sorted(got), sorted(st.cur), st.log[-1:]))
    else:
        for k in got:
            st.problem("get_semantic_constraints()[%r] differs from the table last accepted" % k, got[k] != st.cur[k])
    again = api.get()
    if again is got:
        st.problem("get_semantic_constraints() returned the same object twice")
    for name in PRESETS:
        p = api.get_preset(name)
        if p != st.presets0[name]:
            st.problem("preset %r changed: %s" % (name, sorted(set(p.items()) ^ set(st.presets0[name].items()))[:4]))
    if alphabet:
        a = api.get_alphabet()
        a2 = api.get_alphabet()
        if a is a2:
            st.problem("get_semantic_robust_alphabet() returned the same object twice (not a private copy)")
            if st.alpha_dirty:
                return  # the content of an aliased, caller-mutated set is a consequence of that one defect
        expect_atoms = {}
        for k, v in st.cur.items():
            if k == "?":
                continue
            for b, o in BONDS:
                expect_atoms["[%s%s]" % (b, k)] = (v, o)
        extra = set(a) - FIXED - set(expect_atoms)
        if extra:
            st.problem("robust alphabet contains %s, not derivable from the current table" % sorted(extra)[:4])
        missing = FIXED - set(a)
        if missing:
            st.problem("robust alphabet lacks %s" % sorted(missing)[:4])
        for sym, (v, o) in expect_atoms.items():
            if sym in FIXED:
                continue
            if sym in a:
                st.problem("robust alphabet contains %s although its capacity is below %d" % (sym, o), v < o)
            else:
                st.problem("robust alphabet lacks %s although its capacity is at least %d" % (sym, o), v >= o)
