"""C15 - label / one-hot encodings are exact inverses of their decoders."""
import time

import z3

from .. import driver, engine, symstr
from ..ctx import Ctx
from ..engine import fresh_int, zint, SymInt, SymBool
from ..symstr import make_slots, model_value

V1 = ["[nop]", "[C]", "[=O]", ".", "[Cl]"]
V2 = ["[C]", "[N]", "[F]", "[nop]"]        # no '.'
V3 = ["[C]", "[=O]", "."]                  # no [nop]: padding must raise
ENC = ["label", "one_hot", "both", "hot"]


def zeq(a, b):
    """z3 condition a == b for ints/SymInts"""
    return zint(a) == zint(b)


def run(rep, tier, seed, budget):
    ctx = Ctx.get()
    eu = ctx.eu
    quick = tier == "quick"
    total = budget or (80 if quick else 900)
    t_end = time.time() + total
    LMAX = 3 if quick else 4

    def mk_vocab(V):
        # bijections symbols <-> 0..n-1: every rotation, optionally with the first two images swapped (2n of the n! maps)
        n = len(V)
        r = fresh_int("rot", 0, n - 1)
        sw = fresh_int("swap", 0, 1)
        out = {}
        for i, s in enumerate(V):
            j = z3.IntVal(i) if i > 1 else z3.If(sw.e == 1, z3.IntVal(1 - i), z3.IntVal(i))
            out[s] = engine.mk_int((j + r.e) % n)
        return out

    def symbols_of(L, V, prefix="y"):
        """L symbols over V such that the string is well formed; returns (SymStr/str, list of slot strings)"""
        spec = []
        for i in range(L):
            spec.append(V)
        return make_slots(prefix, spec) if spec else ""

    def wf(items):
        prev_dot = True
        for it in items:
            if it == ".":
                if prev_dot:
                    return False
                prev_dot = True
            else:
                prev_dot = False
        return not (items and items[-1] == ".")

    def path(eng, col):
        ctx.reset()
        vi = int(fresh_int("vocab", 0, 2))
        V = [V1, V2, V3][vi]
        stoi = mk_vocab(V)
        L = int(fresh_int("L", 0, LMAX))
        pad = fresh_int("pad", -2, LMAX + 3)
        et = ENC[int(fresh_int("enc", 0, 3))]
        s = symbols_of(L, V)
        try:
            r = symstr.robust_call(eu.selfies_to_encoding, s, stoi, pad_to_len=pad, enc_type=et)
            err = None
        except (KeyError, ValueError) as ex:
            r, err = None, ex
        sc = str(s)
        import re
        items = re.findall(r"\[[^\[\]]*\]|\.", sc)
        if not wf(items):
            return  # not a well-formed SELFIES string: outside the property
        m0 = eng.current_model()
        padv = model_value(m0, pad)
        npad = max(0, padv - L)
        case = {"prop": "C15", "kind": "encoding", "vocab": None, "selfies": sc, "pad": None, "enc_type": et}
        bads = []
        hard = False
        must_raise = (et == "hot") or (npad > 0 and "[nop]" not in V)
        col.nontrivial((vi, L, et, npad > 0, err is None))
        col.sample({"vocab": V, "selfies": sc, "pad>L": npad > 0, "enc_type": et, "raised": type(err).__name__ if err else None})
        if err is not None:
            if not must_raise:
                hard = True
        elif must_raise:
            hard = True
        else:
            want = [stoi[x] for x in items] + ([stoi["[nop]"]] * npad if npad else [])
            lab = r if et == "label" else (r[0] if et == "both" else None)
            hot = r if et == "one_hot" else (r[1] if et == "both" else None)
            if lab is not None:
                if len(lab) != len(want):
                    hard = True
                else:
                    bads += [z3.Not(zeq(a, b)) for a, b in zip(lab, want)]
            if hot is not None:
                if len(hot) != len(want):
                    hard = True
                else:
                    for row, w in zip(hot, want):
                        if len(row) != len(V) or sum(1 for x in row if x == 1) != 1 or any(x not in (0, 1) for x in row):
                            hard = True
                        else:
                            bads.append(z3.Not(zeq(row.index(1), w)))
            # inverse direction
            itos_of = lambda mdl: {model_value(mdl, p): sym for sym, p in stoi.items()}
            if not hard:
                mdl = eng.current_model()
                itos = itos_of(mdl)
                expect = sc + "[nop]" * npad
                if lab is not None:
                    back = symstr.robust_call(eu.encoding_to_selfies, [model_value(mdl, x) for x in lab], itos, enc_type="label")
                    if str(back) != expect:
                        hard = True
                if hot is not None:
                    back = symstr.robust_call(eu.encoding_to_selfies, hot, itos, enc_type="one_hot")
                    if str(back) != expect:
                        hard = True
        mdl = eng.current_model() if hard else eng.find_model(bads)
        if mdl is not None:
            case["vocab"] = {sym: model_value(mdl, p) for sym, p in stoi.items()}
            case["pad"] = model_value(mdl, pad)
            col.candidate(case)

    res = driver.explore_parallel(path, (t_end - time.time()) * 0.6)
    rep.add_part("selfies_to_encoding / encoding_to_selfies: vocabulary permutation, string, pad length and enc_type symbolic", res,
                 {"vocabularies": [V1, V2, V3], "symbols": "0..%d" % LMAX, "pad_to_len": "-2..%d" % (LMAX + 3), "enc_type": ENC,
                  "vocab indices": "rotation by a free r, first two images optionally swapped (2n bijections per vocabulary)"})

    # two different vocabularies used one after the other in the same process (state kept between calls must not leak)
    def two_vocab_path(eng, col):
        ctx.reset()
        order = int(fresh_int("order", 0, 5))
        VA, VB = [(V1, V2), (V2, V1), (V3, V1), (V1, V3), (V2, V3), (V3, V2)][order]
        import re
        results = []
        for tag, V in (("a", VA), ("b", VB)):
            stoi = {s_: i for i, s_ in enumerate(V)}
            itos = {i: s_ for s_, i in stoi.items()}
            L = int(fresh_int("L" + tag, 1, 2))
            s_ = symbols_of(L, V, tag)
            sc = str(s_)
            items = re.findall(r"\[[^\[\]]*\]|\.", sc)
            if not wf(items):
                return
            try:
                lab, hot = symstr.robust_call(eu.selfies_to_encoding, sc, stoi, enc_type="both")
                flat = symstr.robust_call(eu.batch_selfies_to_flat_hot, [sc], stoi)
                back = symstr.robust_call(eu.batch_flat_hot_to_selfies, flat, itos)
            except Exception as ex:  # noqa
                results.append((V, sc, "raised %r" % (ex,)))
                continue
            want = [stoi[x] for x in items]
            okk = list(lab) == want and [list(r) for r in hot] == [[1 if j == k else 0 for j in range(len(V))] for k in want] \
                and [str(x) for x in back] == [sc] and [list(f) for f in flat] == [[x for r in hot for x in r]]
            results.append((V, sc, okk))
        col.nontrivial(tuple((tuple(v), s2) for v, s2, _ in results))
        col.sample({"first": results[0][1], "second": results[1][1], "vocab_sizes": [len(results[0][0]), len(results[1][0])]})
        if any(r[2] is not True for r in results):
            col.candidate({"prop": "C15", "kind": "two_vocab", "calls": [{"vocab": list(v), "selfies": s2} for v, s2, _ in results]})

    left = t_end - time.time()
    if left > 5:
        res = driver.explore_parallel(two_vocab_path, min(30, left * 0.4))
        rep.add_part("two vocabularies of different sizes used in sequence: second call's label / one-hot / flat-hot still exact", res,
                     {"vocabulary pairs": "all ordered pairs of the three vocabularies", "strings": "1-2 symbols each"})

    # batch functions == element-wise functions; flat-hot round trip; ragged vectors raise
    def batch_path(eng, col):
        ctx.reset()
        V = V1
        stoi = {s: i for i, s in enumerate(V)}
        itos = {i: s for s, i in stoi.items()}
        La = int(fresh_int("La", 0, 2))
        Lb = int(fresh_int("Lb", 0, 2))
        pad = fresh_int("pad", -1, 4)
        a = symbols_of(La, V, "a")
        b = symbols_of(Lb, V, "b")
        try:
            flat = symstr.robust_call(eu.batch_selfies_to_flat_hot, [a, b], stoi, pad)
        except KeyError:
            flat = None
        sa, sb = str(a), str(b)
        import re
        ia, ib = re.findall(r"\[[^\[\]]*\]|\.", sa), re.findall(r"\[[^\[\]]*\]|\.", sb)
        if not (wf(ia) and wf(ib)):
            return
        mdl = eng.current_model()
        padv = model_value(mdl, pad)
        col.nontrivial((sa, sb, padv))
        col.sample({"batch": [sa, sb], "pad": padv})
        bad = False
        if flat is None:
            bad = True
        else:
            want = []
            for s_, it in ((sa, ia), (sb, ib)):
                idx = [stoi[x] for x in it] + [stoi["[nop]"]] * max(0, padv - len(it))
                rowflat = []
                for k in idx:
                    row = [0] * len(V)
                    row[k] = 1
                    rowflat += row
                want.append(rowflat)
            if [list(x) for x in flat] != want:
                bad = True
            else:
                back = symstr.robust_call(eu.batch_flat_hot_to_selfies, flat, itos)
                if [str(x) for x in back] != [sa + "[nop]" * max(0, padv - len(ia)), sb + "[nop]" * max(0, padv - len(ib))]:
                    bad = True
                # ragged vector must raise ValueError
                if want[0]:
                    try:
                        symstr.robust_call(eu.batch_flat_hot_to_selfies, [want[0][:-1]], itos)
                        bad = True
                    except ValueError:
                        pass
        if bad:
            col.candidate({"prop": "C15", "kind": "batch_encoding", "batch": [sa, sb], "pad": padv})

    res = driver.explore_parallel(batch_path, max(10, (t_end - time.time()) * 0.8))
    rep.add_part("batch_selfies_to_flat_hot / batch_flat_hot_to_selfies equal the element-wise functions; ragged vectors raise", res,
                 {"vocabulary": V1, "batch": "2 strings of 0..2 symbols", "pad_to_len": "-1..4"})
    rep.assumptions += ["vocabularies: three symbol sets (with/without '.', with/without [nop]) under 2n of the n! bijections onto 0..n-1 (free rotation, optional swap); strings of at most %d symbols" % LMAX,
                        "CrossHair was tried on these functions (vf/xh/c15_contracts.py): 'Not confirmed' within 60 s per condition, so E2 is not part of this check",
                        "symbols are concretised by the dict look-up vocab_stoi[char] (hash), pad length and permutation stay symbolic until the one-hot row is written"]
    return ctx.stubs
