"""C11 - translation is a pure function of the input and the current constraint table."""
import time

import z3

from .. import driver, engine, symstr, dech, ench, hist
from ..ctx import Ctx
from ..engine import fresh_int
from ..symstr import TokStr, make_tokens, model_value
from .c12 import make_api, judge, NAMES

A11 = ["[C]", "[=C]", "[#C]", "[#N]", "[O]", "[Branch1]", "[Ring1]", "[NH2]", "[CH3]"]
SMILES = ["C#N", "c1ccccc1", "C(F)(F)(F)(F)F", "[NH4+]", "OC=O", "C1CC1"]
WARM = ["[C][#C][#N]", "[N][=C][Branch1][C][O][#N]", "[C][NH2][CH3]", "[C][Branch1][F][C][Cl]", "[C][C][C][C][Ring1]"]
ENC_OPS = [("C#N", False), ("C(F)(F)(F)(F)F", True)]


def gen_op(i, menu):
    k = menu[int(fresh_int("op%d" % i, 0, len(menu) - 1))]
    if k == "set_preset":
        return {"op": k, "name": NAMES[int(fresh_int("pn%d" % i, 0, 3))]}
    if k == "set_dict":
        return {"op": k, "table": {"C": fresh_int("vC%d" % i, -1, 9), "N": fresh_int("vN%d" % i, -1, 9), "?": 2}}
    if k == "set_invalid":
        return {"op": k, "which": ["valid_then_invalid", "missing_q"][int(fresh_int("iv%d" % i, 0, 1))]}
    if k == "preset_mutate":
        return {"op": k, "name": NAMES[int(fresh_int("pm%d" % i, 0, 2))]}
    if k == "decode":
        return {"op": k, "x": WARM[int(fresh_int("wx%d" % i, 0, len(WARM) - 1))]}
    if k == "encode":
        s_, st_ = ENC_OPS[int(fresh_int("ws%d" % i, 0, len(ENC_OPS) - 1))]
        return {"op": k, "s": s_, "strict": st_}
    return {"op": k}


def run(rep, tier, seed, budget):
    ctx = Ctx.get()
    quick = tier == "quick"
    total = budget or (85 if quick else 1200)
    t_end = time.time() + total
    api = make_api(ctx)
    MENU = ["set_preset", "set_dict", "set_invalid", "decode", "encode", "alphabet_mutate", "mutate_passed", "get_mutate", "preset_mutate", "edit_and_reset"]

    def level(K, N):
        def path(eng, col):
            ctx.reset()
            st = hist.State(ctx._presets0)
            ops = []
            for i in range(K):
                op = gen_op(i, MENU)
                ops.append(op)
                hist.apply_op(api, st, op)
            toks = make_tokens("t", N, A11)
            # translation after the history (caches as the history left them)
            d1 = dech.run_decoder(ctx, TokStr(toks))
            e1s = [ench.run_encoder(ctx, s_, strict=False) for s_ in SMILES]
            # reference: fresh caches, the documented current table installed directly
            ctx.reset(dict(st.cur))
            d2 = dech.run_decoder(ctx, TokStr(toks))
            ctx.reset()
            e2s = [ench.run_encoder(ctx, s_, strict=False) for s_ in SMILES]
            nd = lambda r: (r[0], str(r[1]) if r[0] == "ok" else "")
            si = 0
            for j in range(len(SMILES)):
                if nd(e1s[j]) != nd(e2s[j]):
                    si = j
            e1, e2 = e1s[si], e2s[si]
            col.nontrivial((tuple(o["op"] for o in ops), nd(d1)))
            col.sample({"history": [o["op"] for o in ops], "decoded": nd(d1)[1]})
            if nd(d1) != nd(d2) or nd(e1) != nd(e2):
                m = eng.current_model()
                col.candidate({"prop": "C11", "kind": "pure_history", "ops": model_value(m, ops),
                               "selfies": dech.concrete_selfies(m, toks), "smiles": SMILES[si]})
        return path

    def long_level(K):
        def path(eng, col):
            ctx.reset()
            st = hist.State(ctx._presets0)
            ops = []
            for i in range(K):
                op = gen_op(i, ["decode", "encode", "set_preset"])
                ops.append(op)
                hist.apply_op(api, st, op)
            head = make_tokens("h", 1, ["[Ring2]", "[Branch2]", "[=Ring2]"])[0]
            idx = make_tokens("i", 2, ["[C]", "[Ring1]", "[Ring2]", "[Branch1]", "[O]"])
            toks = ["[C]"] * 24 + [head] + idx + ["[O]"] * 4
            d1 = dech.run_decoder(ctx, TokStr(toks))
            ctx.reset(dict(st.cur))
            d2 = dech.run_decoder(ctx, TokStr(toks))
            nd = lambda r: (r[0], str(r[1]) if r[0] == "ok" else "")
            col.nontrivial((tuple(o["op"] for o in ops), nd(d1)))
            col.sample({"history": [o.get("x", o.get("s", o.get("name"))) for o in ops], "decoded": nd(d1)[1][:60]})
            if nd(d1) != nd(d2):
                m = eng.current_model()
                col.candidate({"prop": "C11", "kind": "pure_history", "ops": model_value(m, ops),
                               "selfies": dech.concrete_selfies(m, toks), "smiles": "C"})
        return path

    left = t_end - time.time()
    for K in ((1,) if quick else (1, 2)):
        res = driver.explore_parallel(long_level(K), min(25, left * 0.3))
        rep.add_part("history of %d calls, then a 24-atom chain with a two-symbol index (free): compared with fresh state" % K, res,
                     {"K": K, "operations": ["decode", "encode", "set_preset"], "warm-up strings": WARM})

    plan = [(0, 2), (1, 2), (2, 2), (1, 3)] if quick else [(0, 3), (1, 3), (2, 3), (3, 2), (2, 4)]
    for K, N in plan:
        left = t_end - time.time()
        name = "history of %d calls, then decoder(x) with %d free symbols and encoder(s, strict=False); compared with fresh caches + same table" % (K, N)
        if left < 5:
            rep.parts.append({"name": name, "complete": False, "paths": 0, "bounds": {"K": K, "N": N}, "claim": "not started (time budget)"})
            continue
        res = driver.explore_parallel(level(K, N), left * 0.7)
        rep.add_part(name, res, {"K": K, "operations": MENU, "x_alphabet": A11, "N_symbols": N, "smiles": SMILES,
                                 "dict_values": "C, N free in -1..9, ? = 2"})
    rep.assumptions += ["reference semantics = the same path after clearing every cache and installing the documented current table directly (fresh-process equality is replayed concretely for models only)",
                        "hash-seed / cross-process determinism is not encodable; outside the claim",
                        "histories of at most K calls from the listed operation kinds"]
    return ctx.stubs
