"""C07 - any string over the semantically robust alphabet is a valid molecule."""
import time

import z3

from .. import driver, engine, symstr, dech, docs
from ..ctx import Ctx, table_model
from ..engine import fresh_int, zint, SymInt
from ..symstr import TokStr, make_tokens, make_slots, model_value

BONDS = {"": 1, "=": 2, "#": 3}
FIXED = set(docs.DOC_INDEX) | {"[%sBranch%d]" % (b, i) for b in ("", "=", "#") for i in (1, 2, 3)} | \
        {"[%sRing%d]" % (b, i) for b in ("", "=") for i in (1, 2, 3)}
R_ALPHA = ["[C]", "[=C]", "[#C]", "[N]", "[=N]", "[#N]", "[O]", "[=O]",
           "[Branch1]", "[=Branch1]", "[#Branch1]", "[Branch2]", "[Ring1]", "[=Ring1]", "[Ring2]"]
R_KEYS = ["C", "N", "O", "?"]


def run(rep, tier, seed, budget):
    ctx = Ctx.get()
    quick = tier == "quick"
    total = budget or (105 if quick else 1200)
    t_end = time.time() + total
    bc = ctx.bc
    DIG = ["0", "1", "2", "9", "²"]

    # (i) accepted tables: alphabet content and decodability of every symbol -----------------
    def path_keys(eng, col):
        ctx.reset()
        shape = int(fresh_int("shape", 0, 3))
        if shape == 0:      # element only
            key = make_slots("k", [["C", "Fe", "Xx", "H", "c"]])
        elif shape == 1:    # E sign d
            key = make_slots("k", [["C", "Fe", "Xx"], ["+", "-"], DIG])
        elif shape == 2:    # E sign d d
            key = make_slots("k", [["C", "Fe"], ["+", "-"], DIG, DIG])
        else:               # junk shapes
            key = make_slots("k", [["C+", "+1", "C+-1", "C1", "", "C+1+", "?1"]])
        v0 = fresh_int("v_q", 0, 9)
        v1 = fresh_int("v_N", 0, 9)
        v2 = fresh_int("v_key", 0, 9)
        kc = str(key)  # a dict key must be concrete: forks over every key value
        table = {"?": v0, "N": v1, kc: v2}
        try:
            bc.set_semantic_constraints(table)
        except ValueError:
            col.count("rejected")
            col.nontrivial(("rejected", kc))
            return
        col.count("accepted")
        alpha = bc.get_semantic_robust_alphabet()
        alpha = set(str(a) for a in alpha)
        bads = []
        expected_atoms = {}
        for k, v in (("N", v1), (kc, v2)):
            for b, o in BONDS.items():
                sym = "[%s%s]" % (b, k)
                expected_atoms[sym] = (v, o)
                if sym in FIXED:
                    continue  # also an index symbol: always present
                if sym in alpha:
                    bads.append(zint(v) < o)
                else:
                    bads.append(zint(v) >= o)
        extra = alpha - FIXED - set(expected_atoms)
        missing = FIXED - alpha
        col.nontrivial(("accepted", kc, tuple(sorted(alpha - FIXED))))
        col.sample({"key": kc, "atom_symbols_in_alphabet": sorted(alpha - FIXED)})
        m = None
        if extra or missing:
            m = eng.current_model()
        else:
            m = eng.find_model(bads)
        if m is None:
            # every symbol of the alphabet must be accepted by the decoder under this table
            for sym in sorted(alpha - FIXED):
                r = dech.run_decoder(ctx, sym)
                if r[0] != "ok":
                    m = eng.current_model()
                    break
        if m is not None:
            col.candidate({"prop": "C07", "kind": "alphabet", "table": table_model(m, table)})

    res = driver.explore_parallel(path_keys, min(60, max(10, t_end - time.time())))
    rep.add_part("i: set_semantic_constraints({?, N, key}) with key over element/charge spellings, values free; "
                 "alphabet content and decodability", res,
                 {"keys": "E | E(+|-)d | E(+|-)dd | junk; E in C,Fe,Xx,H,c; d in %s" % DIG, "values": "0..9"})

    # presets
    def path_presets(eng, col):
        ctx.reset()
        name = ["default", "octet_rule", "hypervalent"][int(fresh_int("p", 0, 2))]
        bc.set_semantic_constraints(name)
        alpha = set(bc.get_semantic_robust_alphabet())
        tab = bc.get_semantic_constraints()
        want = set(FIXED)
        for k, v in tab.items():
            if k == "?":
                continue
            for b, o in BONDS.items():
                if o <= v:
                    want.add("[%s%s]" % (b, k))
        okk = alpha == want and all(dech.run_decoder(ctx, s)[0] == "ok" for s in sorted(alpha))
        col.nontrivial(name)
        col.sample({"preset": name, "alphabet_size": len(alpha)})
        if not okk:
            col.candidate({"prop": "C07", "kind": "alphabet", "table": name})

    res = driver.explore_parallel(path_presets, 30, nworkers=1)
    rep.add_part("i: the three presets: alphabet equals the described set and every symbol decodes", res, {"presets": 3})

    # (ii) strings over the alphabet of the table in force -----------------------------------
    def level(N, ALPHA):
        def path(eng, col):
            table = ctx.sym_table(R_KEYS)
            ctx.reset(table)
            toks = make_tokens("t", N, ALPHA)
            # assumption: every token belongs to the robust alphabet of this table
            for t in toks:
                for i, s in enumerate(ALPHA):
                    if s in FIXED:
                        continue  # index symbols ([C], [=C], [#C], [N], [=N], [O] ...) are in every robust alphabet
                    if s[-2] in "CNO" and "Branch" not in s and "Ring" not in s:
                        o = BONDS[s[1:-2]]
                        eng.assume(z3.Implies(t.e == i, zint(table[s[-2]]) >= o))
            r = dech.run_decoder(ctx, TokStr(toks))
            col.count(r[0])
            if r[0] != "ok":
                m = eng.current_model()
                col.candidate({"prop": "C07", "kind": "robust_string", "selfies": dech.concrete_selfies(m, toks),
                               "table": table_model(m, table)})
                return
            out = str(r[1])
            faults, bads, mol = dech.valence_bads(out, table)
            col.nontrivial(out)
            col.sample({"output": out})
            m = eng.current_model() if faults else eng.find_model(bads)
            if m is not None:
                col.candidate({"prop": "C07", "kind": "robust_string", "selfies": dech.concrete_selfies(m, toks),
                               "table": table_model(m, table)})
        return path

    R_SMALL = ["[C]", "[=C]", "[#C]", "[N]", "[#N]", "[=O]", "[Branch1]", "[=Branch1]", "[Ring1]", "[=Ring1]"]
    for n in ((1, 2, 3, 4) if quick else (1, 2, 3, 4, 5, 6)):
        ALPHA_N = R_SMALL if (quick and n == 4) else R_ALPHA
        left = t_end - time.time()
        name = "ii: N=%d symbols, each in the robust alphabet of a free table: decodes without error and obeys the table" % n
        if left < 5:
            rep.parts.append({"name": name, "complete": False, "paths": 0, "bounds": {"N": n}, "claim": "not started (time budget)"})
            continue
        res = driver.explore_parallel(level(n, ALPHA_N), left * 0.8)
        rep.add_part(name, res, {"alphabet": ALPHA_N, "N_symbols": n, "table": "keys %s free in 0..9" % R_KEYS})
    # (iii) a rejected update must leave alphabet and translation on the table in force
    BAD = [{"?": 3, "Fe+0": 2}, {"C": 4, "?": 3, "O": -1}, {"C": 2}, {"?": 3, "C": 2.5}, {"Xx": 1, "?": 2}, {"?": 3, "N": 2, "C+": 1}]

    def rej_path(eng, col):
        ctx.reset()
        A = {"C": fresh_int("aC", 0, 4), "N": fresh_int("aN", 0, 4), "O": 2, "?": fresh_int("aq", 0, 3)}
        bi = int(fresh_int("bad", 0, len(BAD) - 1))
        bc.set_semantic_constraints(dict(A))
        try:
            bc.set_semantic_constraints(dict(BAD[bi]))
            accepted = True
        except ValueError:
            accepted = False
        toks = make_tokens("t", 2, ["[C]", "[=C]", "[N]", "[#N]", "[=O]", "[Branch1]", "[Ring1]", "[S]"])
        for t in toks:
            for i, s_ in enumerate(t.vals):
                if s_ in FIXED:
                    continue
                if s_[-2] in "CNO":
                    eng.assume(z3.Implies(t.e == i, zint(A[s_[-2]]) >= BONDS[s_[1:-2]]))
        alpha = set(str(a) for a in bc.get_semantic_robust_alphabet())
        bads = []
        hard = accepted
        for k in ("C", "N", "O"):
            for b, o in BONDS.items():
                sym = "[%s%s]" % (b, k)
                if sym in FIXED:
                    continue
                bads.append((zint(A[k]) < o) if sym in alpha else (zint(A[k]) >= o))
        if (alpha - FIXED) - {"[%s%s]" % (b, k) for k in ("C", "N", "O") for b in BONDS}:
            hard = True
        r = dech.run_decoder(ctx, TokStr(toks))
        if r[0] != "ok":
            hard = True
        else:
            out = str(r[1])
            faults, vb, mol = dech.valence_bads(out, A)
            bads += vb
            if faults:
                hard = True
            col.nontrivial((bi, out))
            col.sample({"rejected_table": BAD[bi], "output": out})
        m = eng.current_model() if hard else eng.find_model(bads)
        if m is not None:
            col.candidate({"prop": "C07", "kind": "robust_after_reject", "table": table_model(m, A), "bad": BAD[bi],
                           "selfies": dech.concrete_selfies(m, toks)})

    left = t_end - time.time()
    if left > 4:
        res = driver.explore_parallel(rej_path, min(30, left * 0.8))
        rep.add_part("iii: accepted table A (free), then a rejected update: alphabet and 2-symbol strings still follow A", res,
                     {"rejected_tables": BAD, "A": "C, N, ? free; O = 2"})

    # (iv) a sequence of accepted tables: A is set and used (alphabet, decoder), then B is handed over as a fresh dict, as
    # the same dict object edited in place, or as an equal-looking dict after the caller edited the one passed before
    MODES = ["fresh", "same_object", "edited_then_equal"]

    def acc_path(eng, col):
        ctx.reset()
        A = {"C": fresh_int("aC", 0, 4), "N": 3, "O": 2, "?": 1}
        B = {"C": fresh_int("bC", 0, 4), "N": fresh_int("bN", 0, 4), "O": 2, "?": 1}
        mode = MODES[int(fresh_int("mode", 0, 2))]
        toks = make_tokens("t", 2, ["[C]", "[=C]", "[#C]", "[N]", "[#N]", "[Branch1]", "[Ring1]"])
        d = dict(A)
        bc.set_semantic_constraints(d)
        bc.get_semantic_robust_alphabet()
        dech.run_decoder(ctx, TokStr(toks))
        if mode == "fresh":
            bc.set_semantic_constraints(dict(B))
        elif mode == "same_object":
            d.clear()
            d.update(B)
            bc.set_semantic_constraints(d)
        else:
            d.clear()
            d.update(B)
            bc.set_semantic_constraints(dict(B))
        for t in toks:
            for i, s_ in enumerate(t.vals):
                if s_ in FIXED:
                    continue
                if s_[-2] in "CNO":
                    eng.assume(z3.Implies(t.e == i, zint(B[s_[-2]]) >= BONDS[s_[1:-2]]))
        alpha = set(str(a) for a in bc.get_semantic_robust_alphabet())
        bads = []
        hard = False
        got = bc.get_semantic_constraints()
        if set(got) != set(B):
            hard = True
        else:
            for k in B:
                c = got[k] != B[k]
                if c is True:
                    hard = True
                elif c is not False:
                    bads.append(c.e)
        for k in ("C", "N", "O"):
            for b, o in BONDS.items():
                sym = "[%s%s]" % (b, k)
                if sym in FIXED:
                    continue
                bads.append((zint(B[k]) < o) if sym in alpha else (zint(B[k]) >= o))
        if (alpha - FIXED) - {"[%s%s]" % (b, k) for k in ("C", "N", "O") for b in BONDS}:
            hard = True
        r = dech.run_decoder(ctx, TokStr(toks))
        if r[0] != "ok":
            hard = True
        else:
            out = str(r[1])
            faults, vb, mol = dech.valence_bads(out, B)
            bads += vb
            if faults:
                hard = True
            col.nontrivial((mode, out))
            col.sample({"mode": mode, "output": out})
        m = eng.current_model() if hard else eng.find_model(bads)
        if m is not None:
            col.candidate({"prop": "C07", "kind": "robust_after_accept", "table_a": table_model(m, A), "table_b": table_model(m, B),
                           "mode": mode, "selfies": dech.concrete_selfies(m, toks)})

    left = t_end - time.time()
    if left > 4:
        res = driver.explore_parallel(acc_path, min(30, left * 0.8))
        rep.add_part("iv: accepted table A (free), used, then accepted table B (free; fresh dict / same dict edited in place / equal dict after the caller edited the old one): alphabet, get and 2-symbol strings follow B", res,
                     {"modes": MODES, "A": "C free in 0..4, N = 3, O = 2, ? = 1", "B": "C, N free in 0..4, O = 2, ? = 1", "symbols": 2})

    rep.assumptions += ["part i goes through the real set_semantic_constraints (validation included); the key is concretised (one path per key spelling), values stay symbolic",
                        "part ii installs the table directly and assumes every token is in the robust alphabet of the table: index symbols unconditionally, other atom symbols iff order <= capacity",
                        "'reflects the table in force at the time of the call' is decided by C11's histories"]
    return ctx.stubs
