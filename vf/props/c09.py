"""C09 - encoder is total: returns or raises EncoderError, terminates."""
import time

from .. import driver, engine, symstr, ench
from ..ctx import Ctx
from ..engine import fresh_bool
from ..symstr import make_slots, model_value


def run(rep, tier, seed, budget):
    ctx = Ctx.get()
    quick = tier == "quick"
    total = budget or (80 if quick else 1200)
    t_end = time.time() + total

    def level(N, alts):
        def path(eng, col):
            ctx.reset()
            strict = fresh_bool("strict")
            attr = fresh_bool("attribute")
            s = make_slots("c", [alts] * N)
            # flags stay symbolic: the real code forks on them only where it reads them
            r = ench.run_encoder(ctx, s, strict=strict, attribute=attr)
            m0 = eng.current_model()
            st, at = bool(model_value(m0, strict)), bool(model_value(m0, attr))
            col.count(r[0])
            if r[0] == "exc":
                m = m0
                col.nontrivial(("exc", type(r[1]).__name__))
                col.candidate({"prop": "C09", "kind": "encoder_total", "smiles": model_value(m, s),
                               "strict": st, "attribute": at})
            elif r[0] == "ok":
                o = r[1][0] if isinstance(r[1], tuple) else r[1]
                col.nontrivial(("ok", str(o)[:80]))
                col.sample({"flags": [st, at], "selfies": str(o)[:80]})
            else:
                col.nontrivial(("EncoderError", str(r[1])[:40]))
        return path

    def on_budget(eng, col, b):
        col.error("decision budget exhausted: %s" % b)

    plan = []
    if quick:
        plan += [("chr", n) for n in (1, 2, 3)] + [("tok", n) for n in (1, 2)] + [("tok16", 3)]
    else:
        plan += [("chr", n) for n in (1, 2, 3, 4)] + [("tok", n) for n in (1, 2, 3, 4, 5)]
    KA = ["c", "n", "o", "[nH]", "C", "[n]"]
    RINGS = [["c1", KA, KA, ["", "c", "cc", "ccc", "cccc"], "1", ["", "C", ".C"]],
             [["C", ""], "c1", KA, "c2", KA, ["c", "cc", ""], KA, "c2", ["", "c"], "1"],
             ["c1", ["c", "n"], ["c", ""], "c2", ["c", "cc"], ["2", "c2"], ["c1", "1", "cc1"]]]
    RC = ["1", "%10", ":1", "=1"]
    RINGS += [[["c", "C", "n", "Cc"], "(", ["c", "C", "c:"], RC, ")", RC, ["", "C", "c"]],          # ring opened in a branch, closed on the parent
              [["c1", "C1", "c12", "C12"], ["c", "C", "cc"], ["1", "12", "21", "c1", "C12"], ["", "c", "1"]],   # doubled / repeated closures
              [["C", "c"], ["1", "%10"], ["(C)", "(c)", ""], ["1", "%10", "11"], ["C", "c", ""], ["1", "", "%10"]]]
    plan += [("ring", i) for i in range(len(RINGS))]
    for kind, n in plan:
        left = t_end - time.time()
        if kind == "ring":
            name = "aromatic ring template %d (3- to 7-membered and fused rings, kinds free; kekulizable or not)" % n
            if left < 5:
                rep.parts.append({"name": name, "complete": False, "paths": 0, "bounds": {"template": RINGS[n]}, "claim": "not started (time budget)"})
                continue

            def ring_level(t):
                def path(eng, col):
                    ctx.reset()
                    strict = fresh_bool("strict")
                    attr = fresh_bool("attribute")
                    s_ = make_slots("r", t)
                    r = ench.run_encoder(ctx, s_, strict=strict, attribute=attr)
                    m0 = eng.current_model()
                    col.count(r[0])
                    col.nontrivial((r[0], str(s_)))
                    if r[0] == "exc":
                        col.candidate({"prop": "C09", "kind": "encoder_total", "smiles": model_value(eng.current_model(), s_),
                                       "strict": bool(model_value(m0, strict)), "attribute": bool(model_value(m0, attr))})
                return path
            res = driver.explore_parallel(ring_level(RINGS[n]), left * 0.5, on_budget=on_budget, max_decisions=2000)
            rep.add_part(name, res, {"template": RINGS[n], "flags": "strict, attribute free"})
            continue
        alts = (ench.SMI_CHARS if (n < 3 or not quick) else ench.SMI_CHARS_Q) if kind == "chr" else (ench.SMI_TOKENS if kind == "tok" else
                                                    ["C", "N", "c", "n", "[nH]", "[O-]", "=C", ":c", ":C", "(", ")", "1", "=1", "%10", ".", "%1"])
        name = ("M-CHR N=%d: all strings over %d characters" if kind == "chr"
                else "M-SMI N=%d: all strings over %d SMILES tokens") % (n, len(alts))
        if left < 5:
            rep.parts.append({"name": name, "complete": False, "paths": 0, "bounds": {"N": n},
                              "claim": "not started (time budget)"})
            continue
        res = driver.explore_parallel(level(n, alts), left * 0.7, on_budget=on_budget, max_decisions=2000)
        rep.add_part(name, res, {"alternatives": alts, "N": n, "flags": "strict, attribute free"})
    rep.assumptions += [
        "inputs: strings of N characters / tokens over the listed alternatives; strict and attribute are free booleans; default table",
        "termination inside the bound = every path ends within 2000 decisions",
        "recursion depth / memory exhaustion on very long inputs is outside every bound"]
    return ctx.stubs
