"""C04 - round trip preserves tetrahedral and double-bond stereochemistry."""
import time

from .. import rt, judge, skel
from ..ctx import Ctx
from ..oread import read_smiles
from ..symstr import make_slots

TAG = ["[C@]", "[C@@]"]
TAGH = ["[C@H]", "[C@@H]"]
TAGS = TAG + TAGH + ["[N@+]", "[Si@@]"]
MK = ["/", "\\"]
MK0 = ["/", "\\", ""]
TEMPLATES4 = [
    # centre opens two rings, every label order
    ["F", TAGS, ["12", "21", "1%10", "%101"], ["CCC", "CC"], ["1", "2", "%10"], ["CCC", "C(F)C"], ["2", "1", "%10"]],
    # centre closes two rings
    ["C1CC2C", ["C", ""], TAG, ["12", "21"], ["F", "(F)", "Cl", "(Cl)"]],
    ["C1C", ["2", "%10"], "CC", TAGS, ["12", "21", "1%10", "%101", "2", "1", "%10"], ["F", ""]],
    # centre opens one ring and closes another, digits around a branch
    ["C1CC", TAG, ["12", "21", "1(F)2", "(F)12", "1(F)(Cl)", "(F)1(Cl)", "(F)(Cl)1"], ["CC", "C"], ["C2", "2", ""], ["", "F"]],
    # ring digit between branches, centre first in the string, implicit H
    [TAGH + TAG, ["(F)1", "1(F)", "1", "(F)(Cl)1", "(F)1(Cl)", "1(F)(Cl)"], ["(Cl)", "(Br)", ""], ["CCC1", "CC1", "C=C1"]],
    [TAGH + TAG, ["(F)", "F"], ["(Cl)", "Cl"], ["Br", "(Br)I", "(Br)(I)"]],
    ["N", TAGH, ["(F)", "1", "(C1)"], ["(Cl)", "C1", "Cl", "O"]],
    # two centres
    ["F", TAGH, ["1", "(Cl)"], ["C", ""], TAGH, ["(F)", "(Br)"], ["C1", "C", "1"]],
    # three closures on one centre (cage-like)
    ["C1CC2CC3C", TAG, ["123", "132", "213", "231", "312", "321"]],
    # double-bond marks on chains
    [["F", "C", "Cl"], MK, "C", ["=C", "(F)=C", "=C(F)"], MK, ["F", "C", "C=C/F", "C=C\\F"]],
    [["F", ""], MK0, "C=C", MK0, "C", MK0, "C=C", MK0, "F"],
    # marks carried by ring-closure bonds, on the opening end, the closing end or both
    ["C", ["/1", "\\1", "1"], ["=C", "C=C"], MK, ["CCC", "CC"], ["/1", "\\1", "1"]],
    ["F", MK, "C=C", ["/1", "\\1"], "CCCC", ["1", "/1", "\\1"]],
    ["F", MK, "C=C", MK, "C", MK, "C=C", ["\\C", "/C"], ["", "1CC1"]],
]
TOK4 = ["C", "F", "[C@]", "[C@@H]", "(", ")", "1", "2", "/C", "\\C", "=C", "/1", "N"]


def generated_centres(max_items=3):
    """every arrangement of up to three substituent items after a chiral centre: branches, digits closing rings opened
    earlier, digits opening rings closed later - in every written order (the parser accepts digits after branches)"""
    import itertools
    pool = ["(F)", "(Cl)", "1", "2", "3", "4"]
    out = []
    for m in range(1, max_items + 1):
        for seq in itertools.permutations(pool, m):
            items = "".join(seq)
            tail = "CC" + ("3" if "3" in seq else "") + "C" + ("4" if "4" in seq else "") + "C" + \
                   ("1" if "1" not in seq else "") + "C" + ("2" if "2" not in seq else "")
            for tag in ("[C@]", "[C@@H]"):
                out.append("N1CC2CC" + tag + items + tail)
    return out


def make_judge():
    def j(res):
        if res["status"] != "ok":
            return None  # rejection / decode failure are C09 / C10 subjects
        m_in = read_smiles(res["smi"])
        if m_in.faults:
            return None
        m_out = read_smiles(res["d"])
        if m_out.faults or judge.compare_mols(m_in, m_out) is not None:
            return None  # skeleton differences are C03's
        r = judge.stereo_problem(m_in, m_out)
        return None if r is None else r[1]
    return j


def run(rep, tier, seed, budget):
    ctx = Ctx.get()
    quick = tier == "quick"
    total = budget or (85 if quick else 1500)
    t_end = time.time() + total
    jf = make_judge()
    plan = []
    for i, t in enumerate(TEMPLATES4):
        plan.append(("stereo template %d" % i, lambda t=t: make_slots("s", t), {"template": t}))
    gen = generated_centres(2 if quick else 3)
    plan.append(("generated centres: every ordered arrangement of up to %d items (branches, closing digits, opening digits) after a chiral atom, %d spellings" % (2 if quick else 3, len(gen)),
                 lambda: make_slots("s", [gen]), {"generator": "N1CC2CC + [C@]/[C@@H] + permutation of <= %d of {(F),(Cl),1,2,3,4} + closing tail" % (2 if quick else 3), "spellings": len(gen)}))
    # M-SKEL: one chiral centre at every possible place (first atom, inside a branch, opening / closing rings) of every skeleton
    SPECIAL = {4: ["[C@]", "[C@@]"], 3: ["[C@H]", "[C@@H]"]}
    for n in ((5,) if quick else (5, 6)):
        plan.append(("every skeleton of %d atoms in every writing order with one chiral centre ([C@] / [C@@] at degree 4, [C@H] / [C@@H] at degree 3) at every possible atom" % n,
                     lambda n=n: skel.skeleton(n, ("C",), ("",), ("",), special=SPECIAL), dict(skel.bounds(n), chiral_centre=SPECIAL)))
    for n in ((2, 3, 4) if quick else (2, 3, 4, 5)):
        plan.append(("uniform N=%d tokens with stereo marks" % n, lambda n=n: make_slots("s", [TOK4] * n), {"tokens": TOK4, "N_tokens": n}))
    for name, mk, bounds in plan:
        left = t_end - time.time()
        if left < 4:
            rep.parts.append({"name": name, "complete": False, "paths": 0, "bounds": bounds, "claim": "not started (time budget)"})
            continue
        rt.explore(rep, ctx, name, mk, jf, bounds, left * 0.5, table_mode="relaxed", kind="stereo", strict=False)
    rep.assumptions += ["handedness judged from written neighbour order (preceding atom, implicit H, ring closures by digit position, branches, chain) read by O-READ from input and output; tags must agree iff the permutation is even",
                        "'/' and '\\' compared per bond and, for ring-closure bonds, per end",
                        "inputs: the listed templates (every combination of slot alternatives) and uniform token strings; other spellings are outside the claim",
                        "the unit-level harness on _should_invert_chirality described in the first design was replaced by a generator that writes a chiral centre with every ordered arrangement of up to three items (branches, ring-closing digits, ring-opening digits) and sends each spelling through the end-to-end oracle"]
    return ctx.stubs
