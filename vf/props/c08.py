"""C08 - decoder is total: returns or raises DecoderError, terminates, leaves the constraint state alone."""
import time

import z3

from .. import driver, engine, symstr, dech
from ..ctx import Ctx, table_model
from ..engine import fresh_int, fresh_bool
from ..symstr import TokStr, make_tokens, model_value, make_slots

A_TOK = ["[C]", "[=C]", "[N]", "[Branch1]", "[=Branch2]", "[Ring1]", "[#Ring2]", "[epsilon]", "[nop]", ".",
         # legacy
         "[Branch1_2]", "[Expl=Ring1]", "[Expl\\Ring2]", "[Cexpl]", "[=N+expl]", "[c-expl]", "[expl]", "[=expl]", "[nHexpl]", "[=c@@Hexpl]",
         # malformed / outside the grammar
         "[]", "[x]", "[Branch4]", "[=Ring9]", "[CH9]", "[C+0]", "[eps]", "[ch12]", "[ng12]", "[/\\Ring1]", "[--Ring1]",
         "[12C@@H1+1]", "[C@@@]", "[Xx]", "[1]", "[=]", "[C-]"]
SIGMA = ["[", "]", ".", "C", "=", "#", "1", "H", "+", "-", "@", "x", "e", "p", "l", "²"]
CELLS = ["[C]", "[Ring1]", "[Branch1]", "[", "]", ".", "x", "", "[nop]", "[Cexpl]", "[=Oexpl]", "[cH1expl]"]


def _snapshot(ctx):
    """the global constraint state as the public getters show it"""
    bc = ctx.bc
    return (None, dict(bc.get_semantic_constraints()),
            {k: dict(bc.get_preset_constraints(k)) for k in ("default", "octet_rule", "hypervalent")})


def _judge(ctx, eng, col, r, snap, mk_input, flags):
    comp, attr = flags
    kind = r[0]
    col.count(kind)
    if kind == "ok":
        out = r[1]
        col.nontrivial(("ok", str(out)[:60]))
    elif kind == "DecoderError":
        col.nontrivial(("DecoderError",))
    else:
        ex = r[1]
        col.nontrivial(("exc", type(ex).__name__))
        m = eng.current_model()
        col.candidate({"prop": "C08", "kind": "decoder_total", "selfies": mk_input(m),
                       "compatible": bool(model_value(m, comp)), "attribute": bool(model_value(m, attr))})
        return
    after = _snapshot(ctx)
    if after[1] != snap[1] or after[2] != snap[2]:
        m = eng.current_model()
        col.candidate({"prop": "C08", "kind": "decoder_total", "selfies": mk_input(m),
                       "compatible": bool(model_value(m, comp)), "attribute": bool(model_value(m, attr))})


def run(rep, tier, seed, budget):
    ctx = Ctx.get()
    quick = tier == "quick"
    total = budget or (80 if quick else 1200)
    t_end = time.time() + total

    def on_budget(eng, col, b):
        # a path that needs more decisions than the budget: hand the input to the concrete replayer (wall-clock limit)
        try:
            m = eng.current_model()
        except engine.EngineSignal:
            return
        inp = eng.notes.get("mk_input")
        if inp is not None:
            col.candidate({"prop": "C08", "kind": "decoder_total", "selfies": inp(m), "compatible": False,
                           "attribute": False, "advisory": True})

    def tok_level(N):
        def path(eng, col):
            ctx.reset()
            snap = _snapshot(ctx)
            comp = fresh_bool("compatible")
            attr = fresh_bool("attribute")
            toks = make_tokens("t", N, A_TOK)
            mk = lambda m: dech.concrete_selfies(m, toks)
            eng.notes["mk_input"] = mk
            c, a = bool(comp), bool(attr)
            r = dech.run_decoder(ctx, TokStr(toks), compatible=c, attribute=a)
            col.sample({"flags": [c, a], "outcome": r[0]})
            _judge(ctx, eng, col, r, snap, mk, (comp, attr))
        return path

    def chr_level(N, alts_per_pos, tag):
        def path(eng, col):
            ctx.reset()
            snap = _snapshot(ctx)
            comp = fresh_bool("compatible")
            attr = fresh_bool("attribute")
            s = make_slots("c", [alts_per_pos] * N)
            mk = lambda m: model_value(m, s)
            eng.notes["mk_input"] = mk
            c, a = bool(comp), bool(attr)
            r = dech.run_decoder(ctx, s, compatible=c, attribute=a)
            col.sample({"flags": [c, a], "outcome": r[0]})
            _judge(ctx, eng, col, r, snap, mk, (comp, attr))
        return path

    A_TAB = ["[C]", "[=C]", "[#C]", "[Branch1]", "[=Branch1]", "[Ring1]", "[=Ring1]", "[epsilon]", "[NH1]", "[CH4]", "[nop]", "."]

    A_TAB4 = ["[C]", "[=C]", "[Branch1]", "[Ring1]", "[NH1]", "[CH4]", "[epsilon]", "."]

    def tab_level(N):
        def path(eng, col):
            table = ctx.sym_table(["C", "N", "?"])
            ctx.reset(table)
            comp = fresh_bool("compatible")
            attr = fresh_bool("attribute")
            toks = make_tokens("t", N, A_TAB if (N < 4 or not quick) else A_TAB4)
            c, a = bool(comp), bool(attr)
            r = dech.run_decoder(ctx, TokStr(toks), compatible=c, attribute=a)
            col.count(r[0])
            col.nontrivial((r[0], str(r[1])[:60]))
            col.sample({"flags": [c, a], "outcome": r[0]})
            if r[0] == "exc":
                from ..ctx import table_model
                m = eng.current_model()
                col.candidate({"prop": "C08", "kind": "decoder_total", "selfies": dech.concrete_selfies(m, toks),
                               "compatible": c, "attribute": a, "table": table_model(m, table)})
        return path

    A_H = ["[C]", "[=C]", "[NH2]", "[=IH2]", "[CH3]", "[Branch1]", "[Ring1]", "[OH1]"]

    def hist_level(N):
        def path(eng, col):
            ctx.reset()
            bc = ctx.bc
            A = {"C": fresh_int("aC", 0, 5), "N": fresh_int("aN", 0, 5), "I": fresh_int("aI", 0, 7), "O": 2, "?": 3}
            B = {"C": fresh_int("bC", 0, 5), "N": fresh_int("bN", 0, 5), "I": fresh_int("bI", 0, 7), "O": 2, "?": 3}
            comp = fresh_bool("compatible")
            attr = fresh_bool("attribute")
            toks = make_tokens("t", N, A_H)
            c, a = bool(comp), bool(attr)
            bc.set_semantic_constraints(dict(A))
            dech.run_decoder(ctx, TokStr(toks), compatible=c, attribute=a)
            bc.set_semantic_constraints(dict(B))
            r = dech.run_decoder(ctx, TokStr(toks), compatible=c, attribute=a)
            col.count(r[0])
            col.nontrivial((r[0], str(r[1])[:60]))
            col.sample({"flags": [c, a], "outcome_after_table_change": r[0]})
            if r[0] == "exc":
                from ..ctx import table_model
                m = eng.current_model()
                col.candidate({"prop": "C08", "kind": "decoder_total_history", "selfies": dech.concrete_selfies(m, toks),
                               "compatible": c, "attribute": a, "table_a": table_model(m, A), "table_b": table_model(m, B)})
        return path

    plan = [("hist", n) for n in ((1, 2) if quick else (1, 2, 3))]
    plan += [("tab", n) for n in ((1, 2, 3, 4) if quick else (1, 2, 3, 4, 5))]
    if quick:
        plan += [("tok", n) for n in (1, 2, 3)]
        plan += [("chr", n) for n in (1, 2, 3, 4)]
        plan += [("cell", n) for n in (1, 2, 3)]
    else:
        plan += [("tok", n) for n in (1, 2, 3, 4)]
        plan += [("chr", n) for n in (1, 2, 3, 4, 5, 6)]
        plan += [("cell", n) for n in (1, 2, 3, 4, 5)]
    for kind, n in plan:
        left = t_end - time.time()
        name = {"tok": "M-TOK N=%d: grammar + legacy + malformed symbols, both flags free",
                "chr": "M-CHR N=%d: decoder(str) incl. split_selfies, 16-character alphabet, both flags free",
                "cell": "M-CHR cells N=%d: whole symbols mixed with stray brackets/dots/characters",
                "hist": "table change N=%d: decode x under table A, set table B through the real setter, decode x again (H-bearing symbols, tables free)",
                "tab": "M-TOK x M-TAB N=%d: grammar symbols incl. capacity-0 atoms, capacities of C, N, ? free in 0..9, both flags free"}[kind] % n
        if left < 5:
            rep.parts.append({"name": name, "complete": False, "paths": 0, "bounds": {"N": n},
                              "claim": "not started (time budget)"})
            continue
        if kind == "hist":
            fn, bounds = hist_level(n), {"alphabet": A_H, "N_symbols": n, "tables": "A, B: C, N, I free"}
        elif kind == "tab":
            fn, bounds = tab_level(n), {"alphabet": A_TAB if (n < 4 or not quick) else A_TAB4, "N_symbols": n, "table": "C, N, ? free in 0..9"}
        elif kind == "tok":
            fn, bounds = tok_level(n), {"alphabet": A_TOK, "N_symbols": n}
        elif kind == "chr":
            fn, bounds = chr_level(n, SIGMA, "chr"), {"characters": SIGMA, "N_chars": n}
        else:
            fn, bounds = chr_level(n, CELLS, "cell"), {"cells": CELLS, "N_cells": n}
        res = driver.explore_parallel(fn, left * 0.7, on_budget=on_budget, max_decisions=1500)
        rep.add_part(name, res, bounds)

    # concrete probes beyond every symbolic bound (reported, advisory: do not fail the check on their own)
    rep.assumptions += [
        "inputs: strings of N symbols over the listed token alphabet (M-TOK) and of N characters / cells over the listed characters (M-CHR); compatible and attribute are free booleans",
        "termination inside the bound = every path ends within the decision budget (1500 decisions); a budget overrun is replayed concretely under a wall-clock limit",
        "resource exhaustion (recursion limit at ~1000 nested branches, int-string conversion limit at 4300 digits) is outside every bound (DESIGN.md section 8)",
        "default constraint table",
    ]
    return ctx.stubs
