"""C05 - aromatic SMILES are kekulized correctly, or rejected, independent of atom order."""
import time

from .. import rt, judge, driver, engine, respell, ench, skel
from ..ctx import Ctx
from ..engine import fresh_int
from ..oread import read_smiles
from ..symstr import make_slots

KIND = ["c", "n", "o", "s", "[nH]", "[n+]", "c(C)", "n(C)", "c(=O)", "[cH]", "[n]", "[c]", "s(=O)", "p", "p(=O)(C)"]
KINDQ = ["c", "n", "o", "[nH]", "[n+]", "c(=O)", "[n]", "s(=O)"]
TOK5 = ["c", "n", "o", "s", "p", "[nH]", "[n+]", "[c-]", "[cH]", "C", "N", "=", "(", ")", "1", "2", ":"]
BASES = [
    "c1ccccc1", "c1ccc2ccccc2c1", "c1ccc2[nH]ccc2c1", "c1ccc2ncccc2c1", "c1cc2ccc3cccc4ccc(c1)c2c34",
    "c1ccc2cccc-2cc1", "c1ccc2c(c1)ccc1ccccc12", "c1ccc2c(c1)oc1ccccc12", "c1cnc2[nH]cnc2c1", "O=c1cc[nH]cc1",
    "c1ccc2c(c1)[nH]c1ccccc12", "c1cc2cccc3ccc4cccc1c4c32", "c1ccc2cc3ccccc3cc2c1", "c1ccc2c(c1)c1cccc3cccc2c31",
    "c1csc(-c2ccc[nH]2)n1", "c1cc2cc3ccc4cc1[nH]c4cc3[nH]2",
    # 5-5 / 5-7 / 7-7 fused and cage fragments
    "c1cc2cccc2c1", "c1ccc2cccc2cc1", "c1cc2ccc3ccc4ccc5ccc1c1c2c3c4c51",
    "c1ccc2c(c1)-c1cccc3cccc-2c13",
]
C60 = ("c12c3c4c5c1c1c6c7c2c2c8c3c3c9c4c4c%10c5c5c1c1c6c6c%11c7c2c2c7c8c3c3c8c9c4c4c9c%10c5c5c1c1c6c6c%11c2c2c7c3c3c8c4c4c9c5c1c1c6c2c3c41")


def make_judge():
    def j(res):
        smi = res["smi"]
        m_in = read_smiles(smi)
        if m_in.faults:
            return None
        atoms, abonds = judge.aromatic_system(m_in)
        if not atoms:
            return None
        if res["status"] == "rejected":
            return "rejected although kekulizable" if judge.rejectable(m_in, rt.RELAXED) is False else None
        if res["status"] != "ok":
            return None
        m_out = read_smiles(res["d"])
        if m_out.faults:
            return None
        r = judge.compare_mols(m_in, m_out)
        if r is None:
            r = judge.kekule_problem(m_in, m_out)
        if r is None and judge.kekulizable(m_in) is False:
            return "accepted although no alternating assignment exists"
        return None if r is None else r[1]
    return j


def run(rep, tier, seed, budget):
    ctx = Ctx.get()
    quick = tier == "quick"
    total = budget or (110 if quick else 1500)
    t_end = time.time() + total
    jf = make_judge()
    K = KINDQ if quick else KIND
    plan = []
    for n in ((2, 3) if quick else (2, 3, 4, 5)):
        plan.append(("aromatic SMILES of N=%d tokens" % n, lambda n=n: make_slots("s", [TOK5] * n), {"tokens": TOK5, "N_tokens": n}))
    # monocycles with every ring atom's kind a slot
    plan.append(("5-membered ring, every atom kind free", lambda: make_slots("s", [["c1", "n1", "o1", "[nH]1", "[n]1"], K, K, K, K, "1"]), {"ring": 5, "kinds": K}))
    K6 = ["c", "n", "[nH]", "s(=O)", "[n]"] if quick else K
    plan.append(("6-membered ring, every atom kind free", lambda: make_slots("s", [["c1", "n1", "[n+]1"], K6, K6, K6, K6, K6, "1"]), {"ring": 6, "kinds": K6}))
    if not quick:
        plan.append(("7-membered ring, every atom kind free", lambda: make_slots("s", [["c1", "n1", "o1"], K, K, K, K, K, K, "1"]), {"ring": 7, "kinds": K}))
    K2 = ["c", "n", "[nH]", "s(=O)", "[n]"] if quick else ["c", "n", "[nH]", "o", "s", "[n+]", "[n]"]
    # fused 5-6 (indole-like), 6-6, 5-5, 5-7: selected positions free
    F56 = ["c1", K2, K2, "c2", K2, K2, "c", "c2", K2, "1"] if quick else ["c1", K2, K2, "c2", K2, K2, K2, "c2", K2, "1"]
    plan.append(("fused 5-6 system, five / six positions free", lambda: make_slots("s", F56), {"skeleton": "c1??c2??(c|?)c2?1", "kinds": K2}))
    plan.append(("fused 6-6 system, five positions free", lambda: make_slots("s", ["c1", K2, K2, "c2", K2, K2, "c", K2, "c2", "c1"]), {"skeleton": "c1??c2??c?c2c1", "kinds": K2}))
    K3 = ["c", "n", "[nH]", "o"] if quick else K2
    plan.append(("fused 5-5 and 5-7 systems", lambda: make_slots("s", ["c1", K3, K3, "c2", K3, K3, ["", "cc", "c"], K3, "c2", ["1", "c1"]]), {"skeleton": "c1??c2??(|c|cc)?c2(|c)1", "kinds": K3}))

    def run_templates():
        for name, mk, bounds in plan:
            left = t_end - time.time()
            if left < 4:
                rep.parts.append({"name": name, "complete": False, "paths": 0, "bounds": bounds, "claim": "not started (time budget)"})
                continue
            rt.explore(rep, ctx, name, mk, jf, bounds, left * 0.4, table_mode="relaxed", kind="kekulize", strict=True)

    # order independence: every base system in many atom orders; acceptance must agree with the base spelling
    bases = BASES + ([] if quick else [C60])

    def order_path(eng, col):
        bi = int(fresh_int("base", 0, len(bases) - 1))
        base = bases[bi]
        mol = read_smiles(base)
        n = len(mol.atoms)
        step = 1 if (n <= 24 or not quick) else 3
        st = int(fresh_int("start", 0, (n - 1) // step)) * step
        fl = int(fresh_int("flip", 0, 1))
        rot = int(fresh_int("rot", 0, 1 if quick else 2))
        s = respell.spell(mol, st, bool(fl), rot)
        res = rt.pipeline(ctx, eng, col, s, dict(rt.RELAXED), strict=True)
        ctx.reset(dict(rt.RELAXED))
        ref = ench.run_encoder(ctx, base, strict=True)
        col.count(res["status"])
        col.nontrivial((bi, res["status"], res.get("d")))
        col.sample({"base": base[:60], "spelling": s[:80], "status": res["status"]})
        if (res["status"] == "rejected") != (ref[0] != "ok"):
            col.candidate({"prop": "C05", "kind": "kek_order", "a": base, "b": s})
            return
        if jf(res):
            col.candidate({"prop": "C05", "kind": "kekulize", "smiles": s})

    left = t_end - time.time()
    if left > 4:
        res = driver.explore_parallel(order_path, left * 0.25)
        rep.add_part("order independence: %d aromatic systems x start atom x neighbour order" % len(bases), res,
                     {"bases": [b[:40] for b in bases], "start": "every atom (every 3rd for > 24 atoms in quick)", "flip": [0, 1], "rot": "0..%d" % (1 if quick else 2)})

    # unit level: find_perfect_matching on every labelled graph with n nodes, degree <= 3
    mu = ctx.mu

    def match_path(eng, col):
        n = NMATCH
        g = [[] for _ in range(n)]
        for i in range(n):
            for j in range(i + 1, n):
                if len(g[i]) >= 3 or len(g[j]) >= 3:
                    continue
                if bool(engine.fresh_bool("e_%d_%d" % (i, j))):
                    g[i].append(j)
                    g[j].append(i)
        edges = [(i, j) for i, l in enumerate(g) for j in l if i < j]
        want = judge.has_perfect_matching(range(n), edges)
        got = mu.find_perfect_matching([list(x) for x in g])
        col.nontrivial(tuple(map(tuple, g)))
        if len(edges) == n:
            col.sample({"graph": g, "perfect_matching_exists": want})
        bad = (got is None) == want
        if got is not None and not bad:
            bad = not all(got[i] is not None and got[got[i]] == i and got[i] in g[i] for i in range(n))
        if bad:
            col.candidate({"prop": "C05", "kind": "matching", "graph": g})

    # the same through the public API: every aromatic skeleton a SMILES can spell with n atoms 'c' - the solver chooses the
    # spanning tree in writing order (the parent of atom i is atom i-1 or one of its ancestors), then which other pairs are
    # ring bonds (degree <= 3) - is written out and sent through the real encoder and decoder; O-KEK decides what must happen
    def struct_input(n, rb=("",), sides=("open",)):
        return lambda: skel.skeleton(n, atoms=("c",), max_deg=3, ring_bonds=rb, ring_bond_sides=sides)

    SIDES = ("open", "close", "both")
    SKP = [(4, ("",), ("open",)), (6, ("",), ("open",)), (5, ("", "="), ("open", "close"))] if quick else \
          [(4, ("",), ("open",)), (6, ("",), ("open",)), (5, ("", "-", "="), SIDES), (6, ("", "-"), SIDES), (7, ("",), ("open",)), (8, ("",), ("open",))]
    for n, rb, sides in SKP:
        left = t_end - time.time()
        name = "every aromatic skeleton of %d atoms 'c' a SMILES can spell (spanning tree and ring bonds chosen by the solver%s), through encoder and decoder" % (
            n, "" if rb == ("",) else "; ring bonds implicit or written %s on the opening label, the closing label or both" % "/".join(x for x in rb if x))
        bounds = skel.bounds(n, ("c",), ("",), rb, 3, sides)
        if left < 4:
            rep.parts.append({"name": name, "complete": False, "paths": 0, "bounds": bounds, "claim": "not started (time budget)"})
            continue
        rt.explore(rep, ctx, name, struct_input(n, rb, sides), jf, bounds, left * (0.3 if quick else 0.4), table_mode="relaxed", kind="kekulize", strict=True)

    for NMATCH in ((4, 6) if quick else (4, 6, 8)):
        left = t_end - time.time()
        name = "find_perfect_matching on every labelled graph with %d nodes and degree <= 3 (edges chosen by the solver)" % NMATCH
        if left < 4:
            rep.parts.append({"name": name, "complete": False, "paths": 0, "bounds": {"n": NMATCH}, "claim": "not started (time budget)"})
            continue
        res = driver.explore_parallel(match_path, left * (0.25 if quick else 0.4))
        rep.add_part(name, res, {"nodes": NMATCH, "max_degree": 3})
    run_templates()
    rep.assumptions += ["'needs a pi bond' is decided by an independent rule for the standard kinds only (c, n, o, s, p, [nH], substituted n, [n+], [cH]); atoms of other kinds are only required to receive at most one double bond",
                        "encoder run with strict=True under the relaxed table of the dataset test; a rejection counts as wrong only if the system is kekulizable by the independent rule and no atom would exceed its capacity",
                        "order independence: acceptance of each respelling must equal acceptance of the base spelling and each accepted respelling must be a correct assignment (two different Kekule forms are not a disagreement)",
                        "find_perfect_matching is known (DESIGN.md section 7) to fail from about 10 nodes on non-bipartite graphs; that is beyond the unit-level bound here and is reached only through the listed fused systems"]
    return ctx.stubs
