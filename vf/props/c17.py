"""C17 - attribution is observation-only and truthful about tokens."""
import time

import z3

from .. import driver, engine, symstr, dech, ench
from ..ctx import Ctx
from ..engine import fresh_int
from ..oread import read_smiles
from ..symstr import TokStr, make_tokens, make_slots, model_value, SymTok, SymStr

A17 = ["[C]", "[=C]", "[N]", "[O]", "[Branch1]", "[=Branch1]", "[Branch2]", "[Ring1]", "[=Ring1]", "[epsilon]", "[nop]", "."]
SMI17 = ["C", "N", "O", "Cl", "[nH]", "[O-]", "[C@H]", "=C", "#N", "/C", "(", ")", "1", "=1", "%10", ".", "c", "n"]
TEMPLATES = [
    ["C", ["(", ""], "C", ["(", ""], ["F", "Cl", "[O-]"], [")", ""], ["N", "=O"], [")", ""], ["C", "O", ".C"], ["", ".N", "(F)Cl"]],
    ["C", ["1", "%10"], "C", ["C", "(C)", "(C(F)Cl)"], ["1", "%10"], [".", ""], "C", ["(O)", "(C(=O)O)", ""], ["N", "[NH4+]"]],
    [["C", "N"], ".", ["C", "[Na+]"], ".", "C", ["(", ""], ["O", "=O"], [")", ""], ["N", "F"]],
]


def run(rep, tier, seed, budget):
    ctx = Ctx.get()
    quick = tier == "quick"
    total = budget or (80 if quick else 1200)
    t_end = time.time() + total

    def dec_level(N, fixed=None):
        def path(eng, col):
            ctx.reset()
            toks = fixed if fixed is not None else make_tokens("t", N, A17)
            r0 = dech.run_decoder(ctx, TokStr(toks))
            ctx.reset()
            r1 = dech.run_decoder(ctx, TokStr(toks), attribute=True)
            col.count(r1[0])
            bad = False
            bads = []
            if r0[0] != r1[0]:
                bad = True
            elif r1[0] == "ok":
                out, amap = r1[1]
                out = str(out)
                if str(r0[1]) != out:
                    bad = True
                else:
                    # the effective symbols (not [nop], not '.') up to the largest referenced position
                    eff = []
                    need = max([a.index for e in amap for a in (e.attribution or [])] + [-1])
                    for t in toks:
                        if len(eff) > need:
                            break
                        if bool(t == "[nop]") or bool(t == "."):
                            continue
                        eff.append(t)
                    mol = read_smiles(out)
                    ends = {a.end - 1: a for a in mol.atoms}
                    n_attr = 0
                    for e in amap:
                        tk = str(e.token)
                        lo = e.index + 1 - len(tk)
                        if lo < 0 or out[lo:e.index + 1] != tk:
                            bad = True
                        for a in (e.attribution or []):
                            if not (0 <= a.index < len(eff)):
                                bad = True
                                continue
                            src = eff[a.index]
                            if isinstance(a.token, (SymTok, SymStr)):
                                c = a.token._eq_cond(src) if not isinstance(src, str) else a.token._eq_cond(src)
                            elif isinstance(src, (SymTok, SymStr)):
                                c = src._eq_cond(a.token)
                            else:
                                c = z3.BoolVal(a.token == src)
                            bads.append(z3.Not(c))
                        if e.index in ends and ends[e.index].text == tk:
                            n_attr += 1
                            if not e.attribution:
                                bad = True
                    if n_attr != len(mol.atoms):
                        bad = True
                    col.nontrivial((out, tuple((e.index, tuple(a.index for a in (e.attribution or []))) for e in amap)))
                    col.sample({"output": out, "entries": [(e.index, str(e.token), [a.index for a in (e.attribution or [])]) for e in amap][:6]})
            m = eng.current_model() if bad else eng.find_model(bads)
            if m is not None:
                col.candidate({"prop": "C17", "kind": "attr_decoder", "selfies": dech.concrete_selfies(m, toks)})
        return path

    def enc_path_for(mk):
        def path(eng, col):
            ctx.reset()
            s = mk()
            r0 = ench.run_encoder(ctx, s, strict=False)
            ctx.reset()
            r1 = ench.run_encoder(ctx, s, strict=False, attribute=True)
            col.count(r1[0])
            smi = str(s)  # pins whatever the encoder left undecided (forks over the remaining values)
            if r1[0] == "ok":
                col.nontrivial(str(r1[1][0]))
                col.sample({"smiles": smi, "selfies": str(r1[1][0])})
            # the concrete oracle decides (outputs are concrete on this path); hand every accepted path to it in-process
            if r0[0] != r1[0] or (r1[0] == "ok" and str(r0[1]) != str(r1[1][0])):
                col.candidate({"prop": "C17", "kind": "attr_encoder", "smiles": smi, "strict": False})
                return
            if r1[0] == "ok":
                if not _enc_attr_ok(smi, str(r1[1][0]), r1[1][1]):
                    col.candidate({"prop": "C17", "kind": "attr_encoder", "smiles": smi, "strict": False})
        return path

    def _enc_attr_ok(smi, out, amap):
        import re
        mol = read_smiles(smi)
        if mol.faults:
            return True
        syms = re.findall(r"\[[^\[\]]*\]|\.", out)
        roles, skip = [], 0
        for sy in syms:
            if sy == ".":
                skip = 0
                continue
            if skip:
                roles.append((sy, "index"))
                skip -= 1
                continue
            mm = re.match(r"^\[(?:[=#]|[-/\\][-/\\])?(Branch|Ring)([123])\]$", sy)
            if mm:
                roles.append((sy, mm.group(1)))
                skip = int(mm.group(2))
            else:
                roles.append((sy, "atom"))
        apos = [i for i, (t, r) in enumerate(roles) if r == "atom"]
        if len(apos) != len(mol.atoms):
            return True
        nd = [t for t in mol.tokens if t[3] != "dot"]
        tokidx = {t[0]: i for i, t in enumerate(nd) if t[3] == "atom"}
        for k, p_ in enumerate(apos):
            a = mol.atoms[k]
            want = (tokidx[a.start], a.text)
            ents = [e for e in amap if e.index == p_ and str(e.token) == roles[p_][0]]
            if not any([(x.index, str(x.token)) for x in (e.attribution or [])] == [want] for e in ents):
                return False
        return True

    TRI = ["[C]", "[C]", "[C]", "[Ring1]", "[Ring1]"]

    def many_rings(eng, col):
        k = int(fresh_int("pre_rings", 8, 10))
        toks = TRI * k + make_tokens("t", 3, ["[C]", "[N]", "[Ring1]", "[Branch1]", "[=C]", "[nop]", "."]) + TRI + ["[O]"]
        dec_level(0, toks)(eng, col)

    plan = [("many", 0)] + [("dec", n) for n in ((1, 2, 3, 4) if quick else (1, 2, 3, 4, 5, 6))]
    plan += [("enc", n) for n in ((1, 2, 3) if quick else (1, 2, 3, 4))]
    plan += [("tpl", i) for i in range(len(TEMPLATES))]
    plan += [("skel", n) for n in ((5,) if quick else (5, 6))]
    for kind, n in plan:
        left = t_end - time.time()
        if kind == "many":
            name = "decoder, 8-10 three-membered rings + 3 free symbols + one more ring (two-character ring labels %10, %11 in the output)"
            fn, bounds = many_rings, {"prefix": "8..10 x [C][C][C][Ring1][Ring1]", "free": "3 symbols over 7", "table": "default"}
        elif kind == "dec":
            name = "decoder N=%d: attribute=True vs plain, output/input indices, every atom attributed" % n
            fn, bounds = dec_level(n), {"alphabet": A17, "N_symbols": n, "table": "default"}
        elif kind == "enc":
            name = "encoder N=%d tokens: attribute=True vs plain, every atom symbol attributed to its SMILES atom token" % n
            fn, bounds = enc_path_for(lambda n=n: make_slots("s", [SMI17] * n)), {"tokens": SMI17, "N_tokens": n}
        elif kind == "skel":
            from .. import skel
            at, rb = (("C",) if quick else ("C", "[NH+]", "c")), ("", "=")
            name = "encoder, every skeleton of %d atoms %s in every writing order (ring bonds %s): attribution of every atom symbol" % (n, list(at), list(rb))
            fn, bounds = enc_path_for(lambda n=n: skel.skeleton(n, at, ("",), rb)), skel.bounds(n, at, ("",), rb)
        else:
            name = "encoder template %d: nested branches / rings / several fragments with symbolic slots" % n
            fn, bounds = enc_path_for(lambda n=n: make_slots("s", TEMPLATES[n])), {"template": TEMPLATES[n]}
        if left < 5:
            rep.parts.append({"name": name, "complete": False, "paths": 0, "bounds": bounds, "claim": "not started (time budget)"})
            continue
        res = driver.explore_parallel(fn, left * 0.6)
        rep.add_part(name, res, bounds)
    rep.assumptions += ["default table (attribution does not consult capacities beyond what C01/C02 cover)",
                        "encoder clause judged per SELFIES atom symbol; index entries of branch/ring/index symbols are outside the property's encoder clause and are not judged",
                        "'attributed to the atom symbol that created it': creator = last contributing entry, must render to the output atom text, enclosing entries must be branch symbols with increasing positions"]
    return ctx.stubs
