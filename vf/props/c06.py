"""C06 - strict encoding rejects exactly the constraint-violating molecules."""
import time

import z3

from .. import driver, engine, symstr, ench, judge, skel
from ..ctx import Ctx, table_model
from ..engine import fresh_int, zint
from ..oread import read_smiles, explicit_valence, table_key
from ..symstr import make_slots, model_value

TOK6 = ["C", "N", "O", "F", "Cl", "[NH4+]", "[C-]", "[Fe]", "[CH3]", "[O+]", "[N+]", "[13CH2]",
        "=C", "#N", "=O", "#C", "(", ")", "1", "=1", "."]
KEYS6 = ["C", "N", "O", "F", "Cl", "N+1", "C-1", "O+1", "?"]
TEMPLATES6 = [
    [["C", "N", "[N+]", "[C-]", "[Fe]"], ["(F)", "(=O)", ""], ["(F)", ""], ["F", "=O", "#N"]],
    [["[CH3]", "[CH2]", "[NH4+]", "[OH+]", "[FeH]"], ["F", "=O", "(F)F", "#N", "(=O)=O"]],
    ["C", ["1", "=1"], ["C", "[N+]"], ["C", "=C"], ["1", "=1"], ["F", ""]],
    # aromatic spellings: the bond counts the strict check reads are those left behind by kekulization
    [["C", "", "O."], ["c1", "[n+]1", "[nH+]1", "n1"], "c", ["c", "c(C)"], "c", ["c", "n"], ["c1", "c1C"]],
    [["c1cc", "C.c1cc", "Cc1cc"], ["[se]", "o", "s", "[nH]", "n(C)"], ["c1", "c1C"]],
]


def run(rep, tier, seed, budget):
    ctx = Ctx.get()
    quick = tier == "quick"
    total = budget or (115 if quick else 1200)
    t_end = time.time() + total

    def mk_path(mk):
        def path(eng, col):
            table = ctx.sym_table(KEYS6)
            ctx.reset(table)
            s = mk()
            n0 = len(eng.pcs)
            r0 = ench.run_encoder(ctx, s, strict=False)
            smi = str(s)
            # non-interference: nothing decided during the strict=False call may mention the table
            leaked = [c for c in eng.pcs[n0:] if "cap_" in c.sexpr()]
            out0 = str(r0[1]) if r0[0] == "ok" else None
            if r0[0] == "exc":
                col.error("encoder raised %r in the harness" % (r0[1],))
                return
            if leaked or (out0 is not None and "cap_" in repr(r0[1])):
                m = eng.current_model()
                col.candidate({"prop": "C06", "kind": "strict", "smiles": smi, "table": table_model(m, table)})
                return
            ctx.reset(table)
            r1 = ench.run_encoder(ctx, s, strict=True)
            col.count("%s/%s" % (r0[0], r1[0]))
            if r0[0] != "ok":
                # unparseable / not kekulizable: strict must fail the same way
                if r1[0] == "ok":
                    col.candidate({"prop": "C06", "kind": "strict", "smiles": smi, "table": table_model(eng.current_model(), table)})
                return
            mol = read_smiles(smi)
            if mol.faults:
                return
            aromatic = any(a.aromatic for a in mol.atoms) or any(b.order == 1.5 for b in mol.bonds.values())
            raised = r1[0] != "ok"
            col.nontrivial((smi, raised))
            col.sample({"smiles": smi, "strict_raises": raised})
            bads = []
            if not raised and str(r1[1]) != out0:
                bads.append(True)
            vals = None
            if not aromatic:
                vals = [int(explicit_valence(mol, i)) for i in range(len(mol.atoms))]
            else:
                # a kekulizable aromatic input (strict=False accepted it): every aromatic atom of a standard kind has, in
                # every Kekule form, the same bond-order sum: its sigma bonds + H + 1 if it needs a ring double bond (O-KEK)
                need = [judge.pi_need(mol, i) if a.aromatic else 0 for i, a in enumerate(mol.atoms)]
                if all(n is not None for n in need):
                    vals = []
                    for i, a in enumerate(mol.atoms):
                        sig = sum((1 if b.order == 1.5 else b.order) for (x, y), b in mol.bonds.items() if i in (x, y))
                        vals.append(int(sig + (a.hcount or 0) + need[i]))
            if vals is not None:
                over = []
                for i, a in enumerate(mol.atoms):
                    k = table_key(a)
                    cap = zint(table[k] if k in table else table["?"])
                    over.append(cap < vals[i])
                expected = z3.Or(over) if over else z3.BoolVal(False)
                bads.append(z3.Not(expected) if raised else expected)
            m = eng.find_model(bads)
            if m is not None:
                col.candidate({"prop": "C06", "kind": "strict", "smiles": smi, "table": table_model(m, table)})
        return path

    TOKQ = ["C", "N", "O", "F", "[NH4+]", "[C-]", "[Fe]", "[CH3]", "=C", "#N", "=O", "(", ")", "1"]
    TOK = TOKQ if quick else TOK6
    def run_plan(plan, share):
        for kind, n in plan:
            left = t_end - time.time()
            if kind == "skel":
                at, tb, rb = n[1:]
                name = "every skeleton of %d atoms %s in every writing order (tree bonds %s, ring bonds %s) x free table: strict raises iff some atom exceeds its capacity" % (n[0], list(at), list(tb), list(rb))
                fn, bounds = mk_path(lambda n=n: skel.skeleton(n[0], at, tb, rb)), skel.bounds(n[0], at, tb, rb)
            elif kind == "tok":
                name = "N=%d SMILES tokens x free table: strict raises iff some atom exceeds its capacity; strict=False never consults the table" % n
                fn, bounds = mk_path(lambda n=n: make_slots("s", [TOK] * n)), {"tokens": TOK, "N_tokens": n}
            else:
                name = ("template %d (atoms at, below and above a capacity; charged, H-bearing, '?'-fallback) x free table" % n) if n < 3 else \
                    ("template %d (aromatic rings: pyridine/pyridinium/benzene and five-ring heteroaromatics, substituents) x free table" % n)
                fn, bounds = mk_path(lambda n=n: make_slots("s", TEMPLATES6[n])), {"template": TEMPLATES6[n]}
            bounds["table"] = "keys %s free in 0..9" % KEYS6
            if left < 5:
                rep.parts.append({"name": name, "complete": False, "paths": 0, "bounds": bounds, "claim": "not started (time budget)"})
                continue
            res = driver.explore_parallel(fn, left * share)
            rep.add_part(name, res, bounds)

    run_plan([("tok", 1), ("tok", 2)] + [("tpl", i) for i in range(len(TEMPLATES6))], 0.3)
    SK6 = [(4, ("C",), ("", "="), ("", "="))] if quick else [(4, ("C", "N", "[O+]"), ("", "="), ("", "=")), (5, ("C",), ("", "="), ("", "=", "#"))]
    run_plan([("skel", x) for x in SK6], 0.4)
    # tables that change between calls: strict-encode under table A (fills every cache), switch to table B through the
    # real set_semantic_constraints, strict-encode again: the second outcome must follow table B alone
    WARM = ["C(F)(F)(F)F", "N(F)(F)F", "[NH4+]", "[Fe](F)F", "O=C=O"]
    PROBE = ["C(F)(F)(F)F", "C(F)(F)F", "N(F)(F)(F)(F)F", "[NH4+]", "[Xe](F)F", "FOF", "C#N"]

    def hist_path(eng, col):
        ctx.reset()
        bc = ctx.bc
        A = {"C": fresh_int("aC", 0, 6), "N": fresh_int("aN", 0, 6), "N+1": 4, "O": 2, "F": 1, "?": fresh_int("aq", 0, 3)}
        B = {"C": fresh_int("bC", 0, 6), "N": fresh_int("bN", 0, 6), "N+1": fresh_int("bNp", 0, 5), "O": 2, "F": 1, "?": fresh_int("bq", 0, 3)}
        wi = int(fresh_int("warm", 0, len(WARM) - 1))
        pi = int(fresh_int("probe", 0, len(PROBE) - 1))
        bc.set_semantic_constraints(dict(A))
        ench.run_encoder(ctx, WARM[wi], strict=True)
        ench.run_encoder(ctx, PROBE[pi], strict=True)
        bc.set_semantic_constraints(dict(B))
        r1 = ench.run_encoder(ctx, PROBE[pi], strict=True)
        if r1[0] == "exc":
            col.error("encoder raised %r in the harness" % (r1[1],))
            return
        mol = read_smiles(PROBE[pi])
        over = []
        for i, a in enumerate(mol.atoms):
            v = explicit_valence(mol, i)
            k = table_key(a)
            over.append(zint(B[k] if k in B else B["?"]) < int(v))
        expected = z3.Or(over)
        raised = r1[0] != "ok"
        col.nontrivial((wi, pi, raised))
        col.sample({"warm": WARM[wi], "probe": PROBE[pi], "strict_raises_under_B": raised})
        m = eng.find_model([z3.Not(expected) if raised else expected])
        if m is not None:
            col.candidate({"prop": "C06", "kind": "strict_history", "table_a": table_model(m, A), "table_b": table_model(m, B),
                           "warm": WARM[wi], "smiles": PROBE[pi]})

    left = t_end - time.time()
    if left > 5:
        res = driver.explore_parallel(hist_path, left * 0.4)
        rep.add_part("table change between calls: strict encode under A, set B, strict encode again: outcome follows B alone", res,
                     {"tables": "A and B: C, N, ? (and N+1 in B) free", "warm-up": WARM, "probe": PROBE})

    run_plan([("tok", n) for n in ((3,) if quick else (3, 4))], 0.9)
    rep.assumptions += ["the exact 'iff' is judged on non-aromatic inputs (bond orders read directly from the input by O-READ) and on kekulizable aromatic inputs whose aromatic atoms are all of a standard kind (bond-order sum = sigma bonds + H + O-KEK's 'needs a ring double bond'); for other aromatic inputs only 'strict succeeds => same string as strict=False' and table-independence are judged",
                        "table installed directly; one table change between two strict calls is explored here; longer histories are C11's",
                        "non-interference is decided syntactically: no branch condition recorded during the strict=False call, and no part of its result, may mention a table variable"]
    return ctx.stubs
