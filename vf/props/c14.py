"""C14 - tokenisation utilities agree with each other and with the translators."""
import os
import time

import z3

from .. import driver, engine, symstr, xhair, ench, dech
from ..ctx import Ctx
from ..engine import fresh_int, zint
from ..symstr import make_slots, model_value

HERE = os.path.dirname(os.path.abspath(__file__))
CONTRACTS = os.path.join(os.path.dirname(HERE), "xh", "c14_contracts.py")


def my_split(s):
    """independent scanner: items of a well-formed string, None otherwise"""
    out, i, n = [], 0, len(s)
    while i < n:
        if s[i] != "[":
            return None
        j = i + 1
        while j < n and s[j] != "]":
            if s[j] in "[.":
                return None
            j += 1
        if j >= n:
            return None
        out.append(s[i:j + 1])
        i = j + 1
        if i < n and s[i] == ".":
            if i + 1 >= n:
                return None
            out.append(".")
            i += 1
    return out


def run(rep, tier, seed, budget):
    ctx = Ctx.get()
    quick = tier == "quick"
    sfu = ctx.sfu
    t0 = time.time()
    # E2: CrossHair, arbitrary Unicode strings of bounded length ---------------------------------
    res = xhair.run_contracts(CONTRACTS, per_condition_timeout=40 if quick else 240)
    for fn, r in sorted(res.items()):
        rep.obligations += 1
        ok = r["status"] == "confirmed"
        if ok:
            rep.discharged += 1
        rep.parts.append({"name": "E2 CrossHair %s" % fn, "lemma": True, "discharged": ok, "status": r["status"],
                          "bounds": "arbitrary Unicode str, len <= 8 (alphabet pair: 5 + 4), well-formedness as precondition",
                          "wall_s": r.get("wall_s"), "detail": r["message"][-200:], "complete": True})
        if r["status"] == "refuted" and r.get("args"):
            a = r["args"]
            rep.cases.append({"prop": "C14", "kind": "tok_utils", "strings": [x for x in a if isinstance(x, str)]})
    # E1: cross-engine.  Well-formed strings by construction: k symbols, body lengths free (concretised),
    # body characters free over a class list, an optional single dot between symbols -----------------
    BODY_ALL = ["a", "=", "1", " ", "é", "#", "@", "+", "-", "\\", "/", "H", "0", "%", "(", "\n"]

    def path_wf(eng, col, with_alphabet=False):
        ctx.reset()
        K = int(fresh_int("k", 0, 2 if with_alphabet else KMAX))
        BODY = ["a", "="] if with_alphabet else BODY_ALL
        spec = []
        for i in range(K):
            if i:
                spec.append(["", "."])
            b = int(fresh_int("b%d" % i, 0, BMAX))
            spec.append("[")
            for _ in range(b):
                spec.append(BODY)
            spec.append("]")
        s = make_slots("c", spec) if spec else ""
        try:
            items = symstr.robust_call(lambda z: list(sfu.split_selfies(z)), s)
            ln = symstr.robust_call(sfu.len_selfies, s)
            alpha = symstr.robust_call(sfu.get_alphabet_from_selfies, [s]) if with_alphabet else None
        except Exception:  # noqa: a well-formed string must not make the utilities raise
            col.candidate({"prop": "C14", "kind": "tok_utils", "strings": [model_value(eng.current_model(), s)]})
            return
        # independent expectation, structurally (bodies stay symbolic)
        n_items = zint(ln)
        joined = symstr.sym_join("", items) if items else ""
        bads = [n_items != len(items)]
        eqc = (joined == s)
        hard = eqc is False
        if isinstance(eqc, engine.SymBool):
            bads.append(z3.Not(eqc.e))
        dots = len([x for x in items if isinstance(x, str) and x == "."])
        if len(items) - dots != K:
            hard = True
        for it in items:
            if isinstance(it, str) and it == ".":
                continue
            if len(it) < 2 or bool(it[0] != "[") or bool(it[-1] != "]"):
                hard = True
        col.nontrivial((K, len(items), dots, tuple(len(x) for x in items)))
        col.sample({"symbols": K, "items": len(items), "dots": dots, "item_lengths": [len(x) for x in items]})
        m = eng.current_model() if hard else eng.find_model(bads)
        if m is not None:
            col.candidate({"prop": "C14", "kind": "tok_utils", "strings": [model_value(m, s)]})
        elif with_alphabet:
            sc = str(s)
            if set(str(a) for a in alpha) != set(my_split(sc)) - {"."}:
                col.candidate({"prop": "C14", "kind": "tok_utils", "strings": [sc]})

    KMAX, BMAX = (4, 3) if quick else (5, 4)
    left = (budget or (80 if quick else 900)) - (time.time() - t0)
    r = driver.explore_parallel(path_wf, max(10, left * 0.5))
    rep.add_part("E1 well-formed strings by construction: up to %d symbols, bodies of 0..%d free characters, optional dots: split/join/len" % (KMAX, BMAX),
                 r, {"symbols": "0..%d" % KMAX, "body_length": "0..%d" % BMAX, "body_characters": BODY_ALL, "dot_between_symbols": "free"})
    r = driver.explore_parallel(lambda e, c: path_wf(e, c, True), 30)
    rep.add_part("E1 same with get_alphabet_from_selfies (set insertion concretises the bodies): up to 2 symbols", r,
                 {"symbols": "0..2", "body_length": "0..%d" % BMAX, "body_characters": ["a", "="]})
    # collections: every placement of empty / one-symbol / two-symbol strings in a collection of NCOLL strings, given as a
    # list or as a one-shot iterator ---------------------------------------------------------------
    NCOLL = 3 if quick else 4

    def path_coll(eng, col):
        ctx.reset()
        strs = []
        for j in range(NCOLL):
            K = int(fresh_int("k%d" % j, 0, 2))
            spec = []
            for i in range(K):
                if i:
                    spec.append(["", "."])
                spec += ["[", ["a", "="], "]"]
            strs.append(make_slots("c%d_" % j, spec) if spec else "")
        as_iter = bool(engine.fresh_bool("one_shot_iterator"))
        try:
            alpha = symstr.robust_call(lambda zs: sfu.get_alphabet_from_selfies(iter(zs) if as_iter else list(zs)), strs)
        except Exception:  # noqa: well-formed strings must not make the utility raise
            m = eng.current_model()
            col.candidate({"prop": "C14", "kind": "tok_utils", "strings": [model_value(m, x) for x in strs], "one_shot_iterator": as_iter})
            return
        conc = [str(x) for x in strs]
        want = set()
        for x in conc:
            want |= set(my_split(x))
        want.discard(".")
        col.nontrivial((tuple(len(x) for x in conc), len(want)))
        col.sample({"strings": conc, "alphabet": sorted(str(a) for a in alpha)})
        if set(str(a) for a in alpha) != want:
            col.candidate({"prop": "C14", "kind": "tok_utils", "strings": conc, "one_shot_iterator": as_iter})

    r = driver.explore_parallel(path_coll, 25 if quick else 240)
    rep.add_part("E1 get_alphabet_from_selfies on collections of %d strings (each empty, one or two symbols, optional dot; list or one-shot iterator)" % NCOLL,
                 r, {"strings": NCOLL, "symbols_per_string": "0..2", "body_characters": ["a", "="], "container": ["list", "iterator"]})
    # encoder outputs are well formed: asserted on C10's accepted paths; a small direct part here
    SM = ["C", "N", "Cl", "[nH]", "=C", "(", ")", "1", ".", "c", "[O-]", "/C"]

    def enc_path(eng, col):
        ctx.reset()
        s = make_slots("s", [SM] * (3 if quick else 4))
        r = ench.run_encoder(ctx, s, strict=False)
        if r[0] != "ok":
            col.count(r[0])
            if r[0] == "exc":
                col.error("encoder raised %r inside the harness" % (r[1],))
            return
        smi = str(s)
        out = str(r[1])
        want = my_split(out)
        col.count("ok")
        col.nontrivial(out)
        col.sample({"smiles": smi, "selfies": out})
        seen = []
        orig = ctx.dec._tokenize_selfies

        def spy(selfies, compatible):
            for t in orig(selfies, compatible):
                seen.append(str(t))
                yield t
        ctx.dec._tokenize_selfies = spy
        try:
            dech.run_decoder(ctx, out)
        finally:
            ctx.dec._tokenize_selfies = orig
        if want is None or seen != [t for t in want if t != "."]:
            col.candidate({"prop": "C14", "kind": "enc_wellformed", "smiles": smi})

    r = driver.explore_parallel(enc_path, 40)
    rep.add_part("E1 encoder outputs are well formed and the decoder consumes exactly their tokens", r, {"tokens": SM, "N_tokens": 3 if quick else 4})
    rep.level = "model_checking"
    rep.assumptions += ["well-formed = bracketed symbols without '[', ']' or '.' inside, optionally separated by single dots; no leading, trailing or doubled dot",
                        "E2: CrossHair symbolic str (any Unicode code point), len(s) <= 8; E1: structurally generated well-formed strings (bodies symbolic)",
                        "a CrossHair 'Not confirmed' / 'Unable to meet precondition' is inconclusive and leaves the E1 result standing alone"]
    return ctx.stubs
