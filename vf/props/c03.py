"""C03 - SMILES -> SELFIES -> SMILES round trip preserves the molecule atom for atom."""
import time

from .. import rt, judge, skel
from ..ctx import Ctx
from ..oread import read_smiles
from ..symstr import make_slots

TOK3 = ["C", "N", "O", "Cl", "=C", "#N", "(", ")", "1", "2", "=1", "%10", "c", "n", "[nH]", "[O-]", ".", ":", "-"]
TOK3Q = ["C", "N", "=C", "#N", "(", ")", "1", "=1", "%10", "c", "n", "[nH]", "[O-]", ".", ":"]
R = ["1", "2", "%10"]
# spelling templates: one skeleton each, slots = alternative spellings of the same or closely related molecules
TEMPLATES3 = [
    # chain with branches in either order, explicit or implicit single bonds, bracket spellings
    ["C", ["", "-"], "C", ["(F)(Cl)", "(Cl)(F)", "(F)Cl", "(Cl)F"], ["", "-"], ["N", "[NH2]", "[N+]", "[N+1]"], ["", "(=O)", "=O"]],
    # 3-7 membered rings, labels 1 / 2 / %10, reused label
    ["C", R, ["C", "CC", "CCC", "CCCC", "CCCCC"], "C", R, ["", "C", "(C)C"], ["", "1CC1", "2CC2"]],
    # spiro / fused / bridged bicyclics with both label orders on the shared atoms
    ["C", ["12", "21", "1%10", "%101"], "CC", ["C", "N"], ["1", "2", "%10"], "C", ["C", ""], ["2", "1", "%10"]],
    ["C", ["1", "%10"], "CC", ["2", "1"], "CC", ["C", "=C", "(F)"], ["2", "1"], "C", ["1", "%10"]],
    # ring closure digit before / after a branch on the same atom, bond symbol on opening / closing / both ends
    ["C", ["1", "=1"], "CCC", ["(F)", ""], ["1", "=1"], ["", "(F)"], ["C", ""]],
    ["C", ["(F)1", "1(F)"], "CC", ["C1", "C=1", "=C1"]],
    # aromatic spellings
    [["c1ccccc1", "c1ccc(F)cc1", "c1cc[nH]c1", "c1ccncc1", "c1ccoc1", "C1=CC=CC=C1", "c1ccc2ccccc2c1", "c1ccc2[nH]ccc2c1"], ["", "C", ".C"]],
    # aromatic bonds spelled out (':' between atoms, before a ring label, on both / one end of a closure; upper-case atoms)
    [["c", "n", "C"], ["1", ":1"], [":", ""], "c", [":", ""], "c", [":", ""], ["c", "n"], [":", ""], "c", [":", ""], ["c", "C"], [":1", "1"], ["", "C", ":c:c"]],
    # multi-fragment and charged
    [["[Na+]", "[NH4+]", "C"], ".", ["[Cl-]", "[O-]C", "OC(=O)[O-]"], ["", ".O"]],
    # fused aromatics whose fusion bond is written as an explicit closure (-2 on the opening label, the closing label, or both)
    ["c1cc", ["2", "-2"], ["nc", "cc", "c[nH]", "co", "cs"], ["oc", "[nH]c", "sc", "cc", "c"], ["2", "-2"], "cc1"],
    ["c1ccc", ["2", "-2"], "c(c1)", ["-c1ccccc1", "c1ccccc1", "Cc1ccccc1"], ["-2", "2"]],
    # an atom closing a ring with a double / triple bond and opening another ring, valence exactly used up
    ["C1CCC(", ["C", "S", "N"], ["=1", "1", "#1", "=12", "12", "#12"], ["2", "", "%10"], ")CCC", ["2", "", "%10"]],
    ["C1CC", ["=C", "C"], ["12", "21", "=12"], "CC", ["=C2", "C2", "C=2"], ["C1", "C=1", ""]],
    # three to five components of different sizes (component order must be kept)
    [["CCCC", "CCCCCC", "C", "CC(=O)[O-]"], ".", ["CCCC", "CCC", "C", "CC(=O)[O-]"], ".", ["C", "CC", "[Ca+2]"], ["", ".C", ".N.O"]],
    # bracket atom with every way of writing a charge (sign repeated, sign + number, leading zero), with isotope and H count
    [["", "C"], "[", ["", "13"], ["C", "O", "S", "N"], ["", "H"], ["", "+", "++", "+2", "-", "--", "---", "-2", "+03"], "]", ["", "C"]],
]


def make_judge():
    def j(res):
        if res["status"] == "rejected":
            return None
        if res["status"] == "decode-fails":
            return "decoding the encoder's output failed"
        m_in = read_smiles(res["smi"])
        if m_in.faults:
            return None
        m_out = read_smiles(res["d"])
        if m_out.faults:
            return "output unreadable"
        r = judge.compare_mols(m_in, m_out)
        if r is None:
            r = judge.kekule_problem(m_in, m_out)
        return None if r is None else r[1]
    return j


def spacer_inputs():
    """ring spans and branch lengths needing 2 and 3 index symbols"""
    return [["C", ["1", "%10"], "C" * 18, ["", "C", "CC"], ["1", "%10"], ["", "N"]],
            ["C", ["(", ""], "C" * 17, ["", "C", "=C"], [")", ""], "N"],
            ["C1", "C" * 256, ["", "C", "N"], "1"],
            ["C(", "C" * 256, ["", "O"], ")N"]]


def run(rep, tier, seed, budget):
    ctx = Ctx.get()
    quick = tier == "quick"
    total = budget or (85 if quick else 1500)
    t_end = time.time() + total
    jf = make_judge()
    plan = []
    TOK = TOK3Q if quick else TOK3
    for n in ((1, 2, 3) if quick else (1, 2, 3, 4)):
        plan.append(("uniform N=%d tokens, relaxed table" % n, lambda n=n: make_slots("s", [TOK] * n), {"tokens": TOK, "N_tokens": n}, "relaxed"))
    for i, t in enumerate(TEMPLATES3):
        plan.append(("spelling template %d, relaxed table" % i, lambda t=t: make_slots("s", t), {"template": t}, "relaxed"))
    for i, t in enumerate(spacer_inputs()[:2 if quick else 4]):
        plan.append(("long ring span / branch %d (2-3 index symbols)" % i, lambda t=t: make_slots("s", t), {"template": [x if len(x) < 30 else "C*%d" % len(x) for x in t]}, "relaxed"))
    # M-SKEL: every skeleton of n atoms in every writing order (spanning tree and ring bonds chosen by the solver)
    SK = [(5, ("C",), ("",), ("", "=")), (6, ("C",), ("",), ("",))] if quick else \
         [(5, ("C", "N", "[O+]"), ("", "="), ("", "=")), (6, ("C",), ("", "="), ("", "=")), (7, ("C",), ("",), ("",))]
    for n, at, tb, rb in SK:
        plan.append(("every skeleton of %d atoms %s in every writing order (tree bonds %s, ring bonds %s), relaxed table" % (n, list(at), list(tb), list(rb)),
                     lambda n=n, at=at, tb=tb, rb=rb: skel.skeleton(n, at, tb, rb), skel.bounds(n, at, tb, rb), "relaxed"))
    for n in ((1, 2) if quick else (1, 2, 3)):
        plan.append(("uniform N=%d tokens, free table (all tables under which strict accepts)" % n,
                     lambda n=n: make_slots("s", [TOK3Q] * n), {"tokens": TOK3Q, "N_tokens": n}, "free"))
    for tm in ("default", "octet_rule", "hypervalent"):
        plan.append(("spelling template 0+2, preset %s" % tm, lambda: make_slots("s", TEMPLATES3[2]), {"template": TEMPLATES3[2]}, tm))
    for name, mk, bounds, tm in plan:
        left = t_end - time.time()
        if left < 4:
            rep.parts.append({"name": name, "complete": False, "paths": 0, "bounds": bounds, "claim": "not started (time budget)"})
            continue
        rt.explore(rep, ctx, name, mk, jf, bounds, left * 0.5, table_mode=tm, kind="roundtrip")
    rep.assumptions += ["inputs: all strings of N tokens over the listed SMILES tokens, and the listed spelling templates (every combination of slot alternatives)",
                        "oracle: O-READ of input vs O-READ of decoder(encoder(input)): i-th atom (element, isotope, charge, H), bonded pairs, bond orders; aromatic bonds -> 1/2 with at most one double bond per atom",
                        "molecules outside the templates and longer than N tokens are outside the claim"]
    return ctx.stubs
