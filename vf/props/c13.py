"""C13 - [nop] padding is invisible to the decoder."""
import time

import z3

from .. import driver, engine, symstr, dech
from ..ctx import Ctx, table_model
from ..engine import fresh_int, fresh_bool
from ..symstr import TokStr, make_tokens, model_value

A13 = dech.A_CORE + ["[nop]", "."]


class LazyNoNop(symstr.TokFrag):
    """list of tokens that skips [nop] on demand (y = x with the [nop]s deleted)"""
    def __iter__(self):
        for t in list.__iter__(self):
            if bool(t == "[nop]"):
                continue
            yield t

    def _items(self):
        return [t for t in list.__iter__(self) if not bool(t == "[nop]")]


class TokStrNoNop(TokStr):
    FRAG = LazyNoNop

    def as_plain_str(self):
        return "".join(x for x in (t if isinstance(t, str) else str(t) for t in self.toks) if x != "[nop]")


def _norm(r):
    if r[0] == "ok":
        return ("ok", r[1])
    if r[0] == "DecoderError":
        return ("DecoderError",)
    return ("exc", type(r[1]).__name__)


def run(rep, tier, seed, budget):
    ctx = Ctx.get()
    quick = tier == "quick"
    total = budget or (80 if quick else 1200)
    t_end = time.time() + total

    def level(N):
        def path(eng, col):
            table = ctx.sym_table(dech.KEYS_CORE)
            ctx.reset(table)
            attr = fresh_bool("attribute")
            comp = fresh_bool("compatible")
            toks = make_tokens("t", N, A13)
            a, c = bool(attr), bool(comp)
            r1 = _norm(dech.run_decoder(ctx, TokStr(toks), attribute=a, compatible=c))
            ctx.reset(table)
            r2 = _norm(dech.run_decoder(ctx, TokStrNoNop(toks), attribute=a, compatible=c))
            m = eng.current_model()
            x = dech.concrete_selfies(m, toks)
            nn = x.count("[nop]")
            col.count("with_nop" if nn else "without_nop")
            if r1[0] == "exc" and r2[0] == "exc":
                col.count("both_sides_raise_non_DecoderError")
            if nn:
                col.nontrivial((r1[0], str(r1[1:])[:80], tuple(i for i, t in enumerate(toks) if model_value(m, t) == "[nop]")))
                col.sample({"x": x, "result": str(r1)[:80]})
            if r1 != r2:
                col.candidate({"prop": "C13", "kind": "nop_invisible", "selfies": x, "table": table_model(m, table),
                               "attribute": a, "compatible": c})
        return path

    for n in ((1, 2, 3, 4, 5) if quick else (1, 2, 3, 4, 5, 6, 7)):
        left = t_end - time.time()
        name = "differential N=%d: decoder(x) vs decoder(x without [nop]), table, attribute and compatible free" % n
        if left < 5:
            rep.parts.append({"name": name, "complete": False, "paths": 0, "bounds": {"N": n}, "claim": "not started (time budget)"})
            continue
        res = driver.explore_parallel(level(n), left * 0.8)
        if res.col.counts.get("both_sides_raise_non_DecoderError", 0) > 0.5 * max(1, res.stats.paths):
            res.col.error("vacuous differential: on most paths both decoder calls raise an exception other than DecoderError (C08's subject); the comparison says nothing")
        rep.add_part(name, res, {"alphabet": A13, "N_symbols": n, "table": "keys C,? free in 0..9"})

    # [nop] where index symbols are read at the very end of a fragment: a 20-atom chain (so that two- and three-symbol indices
    # matter), a ring / branch symbol asking for 1-3 index symbols, three free symbols among index symbols and [nop], then the
    # end of the string or of the fragment
    HEADS = ["[Ring2]", "[Ring3]", "[Branch2]", "[=Ring1]", "[Branch3]"]
    TAILS = ["[Ring1]", "[C]", "[=N]", "[nop]", "[P]"]

    def tail_path(eng, col):
        ctx.reset()
        head = make_tokens("h", 1, HEADS)[0]
        tail = make_tokens("i", 3, TAILS)
        more = bool(fresh_bool("another_fragment"))
        toks = ["[C]"] * 20 + [head] + tail + ([".", "[O]", "[nop]"] if more else [])
        a = bool(fresh_bool("attribute"))
        r1 = _norm(dech.run_decoder(ctx, TokStr(toks), attribute=a))
        ctx.reset()
        r2 = _norm(dech.run_decoder(ctx, TokStrNoNop(toks), attribute=a))
        m = eng.current_model()
        x = dech.concrete_selfies(m, toks)
        col.nontrivial((str(r1[1:])[:120],))
        col.sample({"tail": x[60:], "result": str(r1)[:100]})
        if r1 != r2:
            col.candidate({"prop": "C13", "kind": "nop_invisible", "selfies": x, "table": None, "attribute": a, "compatible": False})

    res = driver.explore_parallel(tail_path, 40)
    rep.add_part("differential: 20-atom chain + ring/branch symbol + 3 free symbols among index symbols and [nop] at the end of the string / fragment", res,
                 {"chain": 20, "head": HEADS, "tail": "3 symbols over %s" % TAILS, "then": ["end of string", ".[O][nop]"], "attribute": "free", "table": "default"})

    # padding clause: selfies_to_encoding / encoding_to_selfies / decoder, pad length symbolic
    XS = ["[C][Branch1][C][O][N]", "[C][C][C][Ring1][Ring1]", "[C].[N][=O]", "[C][=Branch1][Ring1]", "", "[F]"]

    def pad_path(eng, col):
        ctx.reset()
        xi = int(fresh_int("x", 0, len(XS) - 1))
        x = XS[xi]
        pad = fresh_int("pad", -2, 12)
        enc = int(fresh_int("enc", 0, 1))
        vocab = sorted(set(ctx.sfu.split_selfies(x)) | {"[nop]", "."})
        stoi = {s: i for i, s in enumerate(vocab)}
        itos = {i: s for s, i in stoi.items()}
        et = ["label", "one_hot"][enc]
        e = symstr.robust_call(ctx.eu.selfies_to_encoding, x, stoi, pad_to_len=pad, enc_type=et)
        back = symstr.robust_call(ctx.eu.encoding_to_selfies, e, itos, enc_type=et)
        r1 = _norm(dech.run_decoder(ctx, x))
        r2 = _norm(dech.run_decoder(ctx, str(back)))
        col.nontrivial((xi, str(back)))
        col.sample({"x": x, "padded": str(back)})
        if r1 != r2:
            m = eng.current_model()
            col.candidate({"prop": "C13", "kind": "nop_padding", "selfies": x, "pad": model_value(m, pad), "enc_type": et})

    res = driver.explore_parallel(pad_path, 60)
    rep.add_part("padding: decoder(encoding_to_selfies(selfies_to_encoding(x, pad))) == decoder(x), pad free", res,
                 {"x": XS, "pad_to_len": "-2..12", "enc_type": ["label", "one_hot"]})
    rep.assumptions += ["strings of N symbols over A_core + [nop] + '.'; capacities 0..9; attribute free",
                        "y is x with every [nop] deleted (all subsets of positions arise through the solver's choice of tokens)",
                        "M-TOK cut: split_selfies not on the differential path (it is on the padding path)"]
    return ctx.stubs
