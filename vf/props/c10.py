"""C10 - encoder output is always decodable, standardised and stable under re-encoding."""
import time

from .. import rt, judge, skel
from ..ctx import Ctx
from ..oread import read_smiles
from ..symstr import make_slots
from . import c03, c04

ISO = ["", "1", "13", "013", "0", "235", "999"]
ELEM = ["C", "N", "Fe", "Cl", "Si", "H", "c", "n", "se", "Na", "U"]
CHI = ["", "@", "@@"]
HS = ["", "H", "H0", "H1", "H3", "H9"]
CHG = ["", "+", "++", "+1", "+2", "+10", "+0", "-0", "-", "---", "-1", "-12", "+100"]
CLS = ["", ":1", ":12"]
KNOWN_PROBE = "CCCCC1CCCC(Cl)1CCCCCC"


def make_judge():
    def j(res):
        if res["status"] == "rejected":
            return None
        if res["status"] == "decode-fails":
            return "decoder rejects the encoder's output"
        e = res["e"]
        if judge._wf_split(e) is None:
            return "malformed output"
        if res.get("e2") != e:
            return "unstable under decode / re-encode"
        m_in = read_smiles(res["smi"])
        if not m_in.faults:
            r = judge.standard_symbol_problem(m_in, e)
            if r is not None:
                return r[1]
        return None
    return j


def run(rep, tier, seed, budget):
    ctx = Ctx.get()
    quick = tier == "quick"
    total = budget or (115 if quick else 1500)
    t_end = time.time() + total
    jf = make_judge()
    plan = []
    # bracket atoms: every field of the two hand-written regular expressions gets its own slot
    plan.append(("bracket atom [iso El chi H chg cls] alone and in a chain: isotope x element x charge",
                 lambda: make_slots("s", ["[", ISO, ELEM, ["", "@@"], ["", "H1"], CHG, "]", ["", "C", "=O"]]),
                 {"isotope": ISO, "element": ELEM, "chirality": ["", "@@"], "H": ["", "H1"], "charge": CHG, "tail": ["", "C", "=O"]}, "relaxed"))
    plan.append(("bracket atom: chirality x H count x charge x class",
                 lambda: make_slots("s", [["", "C", "/C", "C="], "[", ["", "2"], ["C", "N", "Fe", "n", "c"], CHI, HS, ["", "+", "-1", "+2"], CLS, "]", ["", "(F)Cl", "F"]]),
                 {"prefix": ["", "C", "/C", "C="], "isotope": ["", "2"], "element": ["C", "N", "Fe", "n", "c"], "chirality": CHI, "H": HS,
                  "charge": ["", "+", "-1", "+2"], "class": CLS, "tail": ["", "(F)Cl", "F"]}, "relaxed"))
    TOK = c03.TOK3Q
    for n in ((1, 2, 3) if quick else (1, 2, 3, 4)):
        plan.append(("uniform N=%d tokens" % n, lambda n=n: make_slots("s", [TOK] * n), {"tokens": TOK, "N_tokens": n}, "relaxed"))
    for i, t in enumerate(c03.TEMPLATES3):
        plan.append(("spelling template %d" % i, lambda t=t: make_slots("s", t), {"template": t}, "relaxed"))
    for i, t in enumerate(c04.TEMPLATES4):
        plan.append(("stereo template %d (marks on chain and ring-closure bonds, chiral centres)" % i, lambda t=t: make_slots("s", t), {"template": t}, "relaxed"))
    ADD = ["C", "CC", "CCC", "CCCC"]
    for nm, t in (("ring span at the 1/2 index-symbol boundary (Q = 14..17)", ["C1", "C" * 14, ADD, "1", ["", "N"]]),
                  ("branch length at the 1/2 index-symbol boundary (Q = 14..17)", ["C(", "C" * 14, ADD, ")N"]),
                  ("ring span at the 2/3 index-symbol boundary (Q = 254..257)", ["C1", "C" * 254, ADD, "1"]),
                  ("branch length at the 2/3 index-symbol boundary (Q = 254..257)", ["C(", "C" * 254, ADD, ")N"])):
        plan.append((nm, lambda t=t: make_slots("s", t), {"template": [x if len(x) < 30 else "C*%d" % len(x) for x in t]}, "relaxed"))
    for i, t in enumerate(c03.spacer_inputs()[:2 if quick else 4]):
        plan.append(("long ring span / branch %d (1, 2, 3 index symbols)" % i, lambda t=t: make_slots("s", t),
                     {"template": [x if len(x) < 30 else "C*%d" % len(x) for x in t]}, "relaxed"))
    SK = [(5, ("C",), ("",), ("", "="))] if quick else [(5, ("C", "N", "[NH+]"), ("", "="), ("", "=")), (6, ("C",), ("", "="), ("", "=")), (7, ("C",), ("",), ("",))]
    for n, at, tb, rb in SK:
        plan.append(("every skeleton of %d atoms %s in every writing order (tree bonds %s, ring bonds %s)" % (n, list(at), list(tb), list(rb)),
                     lambda n=n, at=at, tb=tb, rb=rb: skel.skeleton(n, at, tb, rb), skel.bounds(n, at, tb, rb), "relaxed"))
    for n in ((1, 2) if quick else (1, 2, 3)):
        plan.append(("uniform N=%d tokens, free table" % n, lambda n=n: make_slots("s", [TOK] * n), {"tokens": TOK, "N_tokens": n}, "free"))
    for name, mk, bounds, tm in plan:
        left = t_end - time.time()
        if left < 4:
            rep.parts.append({"name": name, "complete": False, "paths": 0, "bounds": bounds, "claim": "not started (time budget)"})
            continue
        rt.explore(rep, ctx, name, mk, jf, bounds, left * 0.5, table_mode=tm, kind="stable", reencode=True)
    # the table changes between calls: symbols decoded (or rejected) under table A, then A -> B through the real setter,
    # then encoder / decoder / encoder under B
    from .. import driver, dech, ench
    from ..ctx import table_model
    from ..engine import fresh_int
    WARM = ["[C][NH4]", "[ClH2][C]", "[C][CH5]", "[NH4+1][C]"]
    SM = ["C[NH4]", "[ClH2]C", "C[CH5]", "C[NH4+]", "CN", "[NH3]C"]

    def hist_path(eng, col):
        ctx.reset()
        bc = ctx.bc
        A = {"C": fresh_int("aC", 3, 6), "N": fresh_int("aN", 2, 6), "N+1": 4, "Cl": fresh_int("aCl", 1, 3), "H": 1, "?": 2}
        B = {"C": fresh_int("bC", 3, 6), "N": fresh_int("bN", 2, 6), "N+1": 4, "Cl": fresh_int("bCl", 1, 3), "H": 1, "?": 2}
        wi = int(fresh_int("warm", 0, len(WARM) - 1))
        si = int(fresh_int("smi", 0, len(SM) - 1))
        bc.set_semantic_constraints(dict(A))
        dech.run_decoder(ctx, WARM[wi])
        bc.set_semantic_constraints(dict(B))
        r = ench.run_encoder(ctx, SM[si], strict=True)
        if r[0] != "ok":
            col.count(r[0])
            return
        e = str(r[1])
        d = dech.run_decoder(ctx, e)
        col.count("accepted")
        col.nontrivial((wi, si, d[0]))
        col.sample({"warm_decode": WARM[wi], "smiles": SM[si], "selfies": e, "decodes": d[0]})
        bad = d[0] != "ok"
        if not bad:
            r2 = ench.run_encoder(ctx, str(d[1]), strict=True)
            bad = r2[0] != "ok" or str(r2[1]) != e
        if bad:
            m = eng.current_model()
            col.candidate({"prop": "C10", "kind": "stable_history", "table_a": table_model(m, A), "table_b": table_model(m, B),
                           "warm": WARM[wi], "smiles": SM[si]})

    left = t_end - time.time()
    if left > 4:
        res = driver.explore_parallel(hist_path, min(40, left * 0.8))
        rep.add_part("table change between calls: decode under A, set B, then encoder output must be decodable and stable under B", res,
                     {"tables": "A, B: C, N, Cl free", "warm-up decodes": WARM, "smiles": SM})

    rep.probe_cases.append({"prop": "C10", "kind": "stable", "smiles": KNOWN_PROBE, "table": None, "advisory": True})
    rep.assumptions += ["inputs: bracket atoms with every field of SMILES_BRACKETED_ATOM_PATTERN as a slot, uniform token strings, C03's spelling and spacer templates",
                        "standard spelling is computed independently (vf/docs.py standard_atom_text); @ / @@ may be flipped by the encoder (C04's subject) and is compared modulo that",
                        "ring spans / branch lengths needing 3 index symbols only in the thorough tier"]
    return ctx.stubs
