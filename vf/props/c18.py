"""C18 - compatible=True is a conservative extension for pre-v2 symbols."""
import time

from .. import driver, engine, symstr, dech, docs
from ..ctx import Ctx
from ..engine import fresh_int
from ..symstr import TokStr, make_tokens, model_value, SymTok

CORE = ["[C]", "[=C]", "[N]", "[Branch1]", "[=Branch1]", "[Ring1]", "[=Ring1]", "[Ring2]"]
LEG_BR = ["[Branch%d_%d]" % (l, m) for l in (1, 2, 3) for m in (1, 2, 3)] + \
         ["[Expl%sRing%d]" % (b, l) for b in ("=", "#", "/", "\\") for l in (1, 2, 3)]
LEG_AT = ["[Cexpl]", "[=Nexpl]", "[C@@Hexpl]", "[N+expl]", "[Fe++expl]", "[/O-expl]", "[#Cexpl]", "[CH2expl]",
          "[13Cexpl]", "[cexpl]", "[Xxexpl]", "[O--expl]", "[=N+1expl]", "[nHexpl]"]
A_BR = CORE + ["[#C]", "[Branch1_1]", "[Branch1_2]", "[Branch2_3]", "[Branch3_1]", "[Expl=Ring1]", "[Expl#Ring2]",
               "[Expl/Ring1]", "[Expl\\Ring1]", "[Expl=Ring3]"]
A_AT = CORE + LEG_AT
A_FR = ["[C]", "[=C]", "[N]", "[Branch1]", "[Ring1]", ".", "[Na+expl]", "[=Nexpl]", "[Branch1_2]", "[Expl=Ring1]", "[Cexpl]"]


def _norm(r):
    if r[0] == "ok":
        return ("ok", r[1])
    if r[0] == "DecoderError":
        return ("DecoderError",)
    return ("exc", type(r[1]).__name__)


def _modern_tok(t):
    if isinstance(t, str):
        return docs.modernize(t)
    return symstr.tok_from_expr(t.e, [docs.modernize(v) for v in t.vals])


def run(rep, tier, seed, budget):
    ctx = Ctx.get()
    quick = tier == "quick"
    total = budget or (80 if quick else 1200)
    t_end = time.time() + total

    def judge(eng, col, toks):
        ctx.reset()
        r1 = _norm(dech.run_decoder(ctx, TokStr(toks), compatible=True))
        ctx.reset()
        r2 = _norm(dech.run_decoder(ctx, TokStr([_modern_tok(t) for t in toks])))
        m = eng.current_model()
        x = dech.concrete_selfies(m, toks)
        leg = any(docs.is_legacy(model_value(m, t) if not isinstance(t, str) else t) for t in toks)
        col.count("with_legacy" if leg else "modern_only")
        if r1[0] == "exc" and r2[0] == "exc":
            col.count("both_sides_raise_non_DecoderError")
        col.nontrivial((r1[0], str(r1[1:])[:60], leg))
        if leg:
            col.sample({"x": x, "compatible_result": str(r1)[:80]})
        if r1 != r2:
            col.candidate({"prop": "C18", "kind": "compat", "selfies": x})
            return
        if not leg:
            # clause (i): identical to the plain decoder; determined on this path?
            ctx.reset()
            r3 = _norm(dech.run_decoder(ctx, TokStr(toks)))
            if r3 != r1:
                col.candidate({"prop": "C18", "kind": "compat", "selfies": dech.concrete_selfies(eng.current_model(), toks)})

    def level(N, alpha):
        def path(eng, col):
            toks = make_tokens("t", N, alpha)
            judge(eng, col, toks)
        return path

    def all_lm(eng, col):
        # every L, M in 1..3 and every legacy ring spelling, after a fixed 4-atom chain
        t1, t2 = make_tokens("t", 2, LEG_BR + ["[C]", "[Ring1]"])
        t3 = make_tokens("u", 1, ["[C]", "[Ring1]", "[Branch1_2]", "[N]"])[0]
        judge(eng, col, ["[C]", "[=C]", "[C]", "[C]", t1, t2, t3, "[O]"])

    def all_lm2(eng, col):
        # a legacy branch symbol at a state high enough (>= 4) to tell bond types 1/2/3 apart
        t0 = make_tokens("s", 1, ["[C]", "[S]"])[0]
        t1 = make_tokens("t", 1, LEG_BR + ["[Branch1]"])[0]
        t2 = make_tokens("u", 1, ["[C]", "[Ring1]", "[Branch1_3]"])[0]
        t3, t4 = make_tokens("v", 2, ["[#C]", "[=C]", "[C]", "[#Cexpl]", "[=Nexpl]"])
        judge(eng, col, [t0, t1, t2, t3, t4, "[O]"])

    plan = [("fr", n) for n in ((2, 3, 4) if quick else (2, 3, 4, 5))]
    plan += [("br", n) for n in ((1, 2, 3) if quick else (1, 2, 3, 4, 5))] + \
           [("at", n) for n in ((1, 2, 3) if quick else (1, 2, 3, 4, 5))] + [("lm", 0), ("lm2", 0)]
    for kind, n in plan:
        left = t_end - time.time()
        if kind == "lm2":
            name = "all L, M at high state: {[C],[S]} t1 t2 t3 t4 [O], t1 over all 21 legacy branch/ring symbols, t3 t4 over =/# atoms"
            fn, bounds = all_lm2, {"t1": LEG_BR + ["[Branch1]"], "t2": ["[C]", "[Ring1]", "[Branch1_3]"],
                                   "t3,t4": ["[#C]", "[=C]", "[C]", "[#Cexpl]", "[=Nexpl]"]}
        elif kind == "lm":
            name = "all L, M in 1..3: [C][=C][C][C] t1 t2 t3 [O], t1 t2 over all 21 legacy branch/ring symbols"
            fn, bounds = all_lm, {"t1,t2": LEG_BR + ["[C]", "[Ring1]"], "t3": ["[C]", "[Ring1]", "[Branch1_2]", "[N]"]}
        else:
            alpha = A_BR if kind == "br" else (A_AT if kind == "at" else A_FR)
            name = "differential N=%d (%s): decoder(x, compatible=True) vs decoder(modernised x) vs decoder(x)" % (
                n, {"br": "branch/ring legacy", "at": "legacy atoms", "fr": "several fragments, modern and legacy"}[kind])
            fn, bounds = level(n, alpha), {"alphabet": alpha, "N_symbols": n}
        if left < 5:
            rep.parts.append({"name": name, "complete": False, "paths": 0, "bounds": bounds, "claim": "not started (time budget)"})
            continue
        res = driver.explore_parallel(fn, left * 0.6)
        if res.col.counts.get("both_sides_raise_non_DecoderError", 0) > 0.5 * max(1, res.stats.paths):
            res.col.error("vacuous differential: on most paths both decoder calls raise an exception other than DecoderError; the comparison says nothing")
        rep.add_part(name, res, bounds)
    rep.assumptions += ["default constraint table", "O-MODERN (vf/docs.py) transcribes CHANGELOG v2.0.0; [Expl/RingL] -> [//RingL] and [Expl\\RingL] -> [\\\\RingL] follow the library's table, the CHANGELOG does not list them",
                        "clause (iii) (DecoderError exactly when a legacy symbol is reached without the flag) is decided by C02's oracle, not here",
                        "strings of N symbols over the two listed alphabets"]
    return ctx.stubs
