"""C02 - the decoder implements the published SELFIES derivation grammar exactly."""
import time

from .. import driver, engine, symstr, dech, lemmas, oderiv, judge
from ..ctx import Ctx, table_model
from ..oread import read_smiles, Mol
from ..symstr import TokStr, make_tokens, model_value

A_STEREO = dech.A_CORE + ["[/C]", "[\\C]", "[-/Ring1]", "[\\/Ring1]", "[C@]", "[C@@H1]", "[13C]", "[N]", "[=N]"]
A_STEREO_Q = ["[C]", "[=C]", "[Branch1]", "[Ring1]", "[/C]", "[\\C]", "[-/Ring1]", "[\\/Ring1]", "[C@]", "[C@@H1]", "[13C]", "[N]"]
A_BAD = ["[C]", "[=C]", "[#C]", "[Branch1]", "[=Branch2]", "[Ring1]", "[=Ring1]", "[epsilon]",
         "[CH4]", "[Foo]", "[C+0]", "[Branch4]", "[=Ring9]", "[eps]", "[CH9]", "[--Ring1]", "[NH1]", "[O]"]
A_FRAG = ["[C]", "[=C]", "[N]", "[#N]", "[Branch1]", "[Ring1]", "[=Ring1]", "[Ring2]", "[epsilon]", "[nop]", "."]
A_RING = ["[C]", "[Ring1]", "[Ring2]", "[Branch1]", "[=C]"]
A_IDX3 = ["[C]", "[=C]", "[Ring3]", "[Branch3]", "[=Branch2]", "[Ring2]", "[N]", "[O]"]


def run(rep, tier, seed, budget):
    ctx = Ctx.get()
    quick = tier == "quick"
    total = budget or (120 if quick else 1800)
    t_end = time.time() + total
    lemmas.state_lemmas(ctx, rep, equalities=True)
    lemmas.crosshair_state_lemmas(ctx, rep)
    lemmas.index_read_lemma(ctx, rep)
    lemmas.ring_order_step(ctx, rep)

    def level(N, alpha, keys, prefix=()):
        def path(eng, col):
            table = ctx.sym_table(keys)
            ctx.reset(table)
            toks = []
            for j, alts in enumerate(prefix):
                toks += [alts] if isinstance(alts, str) else make_tokens("p%d_" % j, 1, alts)
            toks += make_tokens("t", N, alpha)
            r = dech.run_decoder(ctx, TokStr(toks))
            if r[0] == "exc":
                col.count("exc")
                m = eng.current_model()
                col.candidate({"prop": "C02", "kind": "deriv", "selfies": dech.concrete_selfies(m, toks), "table": table_model(m, table)})
                return
            d = oderiv.derive(toks, table)
            col.count(r[0] + ("/reject" if d.error else "/accept"))
            pb = None
            if d.error is not None:
                if r[0] != "DecoderError":
                    pb = "decoder accepts a string whose derivation reaches %r" % (d.error.sym,)
            elif r[0] != "ok":
                pb = "decoder rejects a string inside the grammar"
            else:
                out = str(r[1])
                mol = read_smiles(out) if out else Mol()
                pb = oderiv.compare_with_output(d, mol) if out else (None if not d.atoms else "empty output")
                col.nontrivial(out)
                col.sample({"output": out, "atoms": len(d.atoms), "ring_candidates": len(d.rings)})
            if pb:
                m = eng.current_model()
                col.candidate({"prop": "C02", "kind": "deriv", "selfies": dech.concrete_selfies(m, toks), "table": table_model(m, table)})
        return path

    plan = []
    if quick:
        plan += [("core", dech.A_CORE, dech.KEYS_CORE, n) for n in (1, 2, 3, 4)]
        plan += [("ring-heavy", A_RING, ["C", "?"], n) for n in (6,)]
        plan += [("stereo/isotope", A_STEREO, ["C", "N", "?"], n) for n in (1, 2)]
        plan += [("stereo/isotope (reduced)", A_STEREO_Q, ["C", "N", "?"], 3)]
        plan += [("capacity-0 / outside the grammar", A_BAD, ["C", "N", "O", "?"], n) for n in (1, 2, 3)]
        plan += [("fragments, [nop]", A_FRAG, ["C", "N", "?"], n) for n in (1, 2, 3)]
    else:
        plan += [("ring-heavy", A_RING, ["C", "?"], n) for n in (6, 7, 8, 9)]
        plan += [("core", dech.A_CORE, dech.KEYS_CORE, n) for n in (1, 2, 3, 4, 5, 6, 7)]
        plan += [("stereo/isotope", A_STEREO, ["C", "N", "?"], n) for n in (1, 2, 3, 4, 5)]
        plan += [("capacity-0 / outside the grammar", A_BAD, ["C", "N", "O", "?"], n) for n in (1, 2, 3, 4, 5)]
        plan += [("fragments, [nop]", A_FRAG, ["C", "N", "?"], n) for n in (1, 2, 3, 4, 5, 6)]
        plan += [("three-symbol indices", A_IDX3, ["C", "N", "O", "?"], n) for n in (4, 5, 6)]
    # strings that end inside an index: chain of K atoms, a ring/branch symbol asking for L symbols, fewer than L present
    def tail_path(eng, col):
        from ..engine import fresh_int
        from .. import docs
        table = dict(ctx._presets0["default"])
        ctx.reset(table)
        K = 20
        head = make_tokens("h", 1, ["[Ring2]", "[Ring3]", "[=Ring2]", "[Branch2]", "[Branch3]", "[Ring1]"])[0]
        m_ = int(fresh_int("m", 0, 2))
        toks = ["[C]"] * K + [head] + make_tokens("i", m_, docs.DOC_INDEX + ["[F]"])
        r = dech.run_decoder(ctx, TokStr(toks))
        d = oderiv.derive(toks, table)
        pb = None
        if r[0] != "ok" or d.error is not None:
            pb = "unexpected rejection"
        else:
            out = str(r[1])
            pb = oderiv.compare_with_output(d, read_smiles(out))
            col.nontrivial(out)
            col.sample({"tail": [str(head)] + [str(t) for t in toks[K + 1:]], "output": out})
        if pb:
            mdl = eng.current_model()
            col.candidate({"prop": "C02", "kind": "deriv", "selfies": dech.concrete_selfies(mdl, toks), "table": None})

    res = driver.explore_parallel(tail_path, 40)
    rep.add_part("differential: 20-atom chain + ring/branch symbol + 0-2 index symbols at the end of the string (fewer than requested)", res,
                 {"chain": 20, "head": ["[Ring2]", "[Ring3]", "[=Ring2]", "[Branch2]", "[Branch3]", "[Ring1]"], "index_symbols_present": "0..2, free over 17 symbols"})

    # nested branches whose last in-budget symbol is itself a ring / branch symbol (its index lies past the budget)
    def nested_path(eng, col):
        table = dict(ctx._presets0["default"])
        ctx.reset(table)
        b1 = make_tokens("b", 1, ["[=Branch1]", "[Branch1]"] if quick else ["[=Branch1]", "[Branch1]", "[#Branch1]"])[0]
        i1 = make_tokens("i", 1, ["[Ring2]", "[Branch1]"] if quick else ["[Ring1]", "[Ring2]", "[Branch1]", "[=Branch1]"])[0]
        b2 = make_tokens("c", 1, ["[Branch1]", "[Ring1]"] if quick else ["[Branch1]", "[=Branch1]", "[Ring1]"])[0]
        i2 = make_tokens("j", 1, ["[C]", "[Ring1]"] if quick else ["[C]", "[Ring1]", "[Ring2]"])[0]
        rest = make_tokens("r", 4 if quick else 5, ["[C]", "[Ring1]", "[=C]", "[F]"] if quick else ["[C]", "[Ring1]", "[=C]", "[Branch1]", "[F]"])
        toks = ["[C]", b1, i1, b2, i2] + rest
        r = dech.run_decoder(ctx, TokStr(toks))
        d = oderiv.derive(toks, table)
        pb = None
        if r[0] == "exc" or (d.error is None) != (r[0] == "ok"):
            pb = "outcome differs"
        elif r[0] == "ok":
            out = str(r[1])
            pb = oderiv.compare_with_output(d, read_smiles(out) if out else Mol())
            col.nontrivial(out)
            col.sample({"output": out})
        if pb:
            mdl = eng.current_model()
            col.candidate({"prop": "C02", "kind": "deriv", "selfies": dech.concrete_selfies(mdl, toks), "table": None})

    left = t_end - time.time()
    if left > 10:
        res = driver.explore_parallel(nested_path, min(40, left * 0.4))
        rep.add_part("differential nested branches: atom, branch, index, nested branch/ring, index, 5 free symbols (budgets that end inside an index)", res,
                     {"shape": "a b1 i1 b2 i2 r r r r r", "b1": 3, "i1": 4, "b2": 3, "i2": 3, "r": "5 symbols each", "table": "default"})

    # a later '.'-fragment: its first symbols are read at state X0 while the molecule already has atoms
    LATER = (["[C]", "[=N]"], ".")
    plan = [(t, a, k, n, ()) for t, a, k, n in plan]
    if quick:
        plan.insert(3, ("later fragment (atom(s) . N symbols)", A_FRAG, ["C", "N", "?"], 3, LATER))
    else:
        plan += [("later fragment (atom(s) . N symbols)", A_FRAG, ["C", "N", "?"], n, LATER) for n in (3, 4, 5)]
    for tag, alpha, keys, n, prefix in plan:
        left = t_end - time.time()
        name = "differential %s N=%d: real decoder (read back by O-READ) vs O-DERIV, table free" % (tag, n)
        if left < 4:
            rep.parts.append({"name": name, "complete": False, "paths": 0, "bounds": {"N_symbols": n}, "claim": "not started (time budget)"})
            continue
        res = driver.explore_parallel(level(n, alpha, keys, prefix), left * 0.6)
        b = {"alphabet": alpha, "N_symbols": n, "table": "keys %s free in 0..9" % keys}
        if prefix:
            b["prefix"] = [list(x) if not isinstance(x, str) else x for x in prefix]
        rep.add_part(name, res, b)
    rep.assumptions += ["O-DERIV (vf/oderiv.py) is written from docs/source/derivation.rst + CHANGELOG v2.0.0 and reproduces the 65 pinned examples of tests/test_specific_cases.py; document drift D1-D3 listed there follows the pinned tests",
                        "strings of exactly N symbols over the listed alphabets (well-formed by construction: M-TOK); capacities 0..9; 'by sampling beyond' is not part of this technique and is not claimed",
                        "the unclosed-bracket clause is decided by C08 (M-CHR) and C14"]
    rep.extra["document_drift"] = ["D1 ring symbols lower the state", "D2 capacity-0 atom at state > 0 is dropped and ends the instance", "D3 ring to self skipped"]
    return ctx.stubs
