"""C12 - constraint configuration API: faithful set/get, atomic rejection, no aliasing."""
import time

import z3

from .. import driver, engine, symstr, dech, hist, oderiv
from ..oread import read_smiles
from ..ctx import Ctx
from ..engine import fresh_int, SymBool, SymInt
from ..symstr import model_value

PROBE = "[C][#C]"
NAMES = ["default", "octet_rule", "hypervalent", "foo"]


def make_api(ctx):
    bc = ctx.bc
    return hist.Api(bc.set_semantic_constraints, bc.get_semantic_constraints, bc.get_preset_constraints,
                    bc.get_semantic_robust_alphabet, ctx.dec.decoder, ctx.enc.encoder,
                    ctx.exc.DecoderError, ctx.exc.EncoderError)


def gen_op(i, menu, invalid=None):
    k = menu[int(fresh_int("op%d" % i, 0, len(menu) - 1))]
    if k == "set_preset":
        return {"op": k, "name": NAMES[int(fresh_int("pn%d" % i, 0, 3))]}
    if k == "set_dict":
        t = {"C": fresh_int("vC%d" % i, -1, 9), "N+1": 2, "?": fresh_int("vq%d" % i, -1, 9)}
        return {"op": k, "table": t}
    if k == "set_invalid":
        w = invalid or sorted(hist.INVALID_DICTS)
        return {"op": k, "which": w[int(fresh_int("iv%d" % i, 0, len(w) - 1))]}
    if k == "set_wrongtype":
        w = sorted(hist.WRONG_TYPES)
        return {"op": k, "which": w[int(fresh_int("wt%d" % i, 0, len(w) - 1))]}
    if k == "preset_mutate":
        return {"op": k, "name": NAMES[int(fresh_int("pm%d" % i, 0, 3))]}
    return {"op": k}


def judge(eng, col, st, ops, kind, extra=None):
    """turn recorded problems into a candidate (solver decides the symbolic ones)"""
    ALIAS = "same object twice (not a private copy)"
    if any(ALIAS in t for t, c in st.problems if c is True):
        # one representative witness for the aliasing defect (all paths see it); it does not end the history
        col.candidate({"prop": col_prop(kind), "kind": "config_history", "ops": [{"op": "set_preset", "name": "default"}]})
    hard = [t for t, c in st.problems if c is True and ALIAS not in t]
    soft = [(t, c) for t, c in st.problems if isinstance(c, SymBool)]
    m = None
    if hard:
        m = eng.current_model()
    elif soft:
        m = eng.find_model([c.e for _, c in soft])
    if m is not None:
        case = {"prop": col_prop(kind), "kind": kind, "ops": model_value(m, ops)}
        if extra:
            case.update(model_value(m, extra))
        col.candidate(case)
        return True
    return False


def col_prop(kind):
    return "C12" if kind == "config_history" else "C11"


def run(rep, tier, seed, budget):
    ctx = Ctx.get()
    quick = tier == "quick"
    total = budget or (85 if quick else 1200)
    t_end = time.time() + total
    api = make_api(ctx)
    FULL = ["set_preset", "set_dict", "set_invalid", "set_wrongtype", "get_mutate", "preset_mutate",
            "alphabet_mutate", "mutate_passed", "edit_and_reset"]

    def level(K, menu, invalid=None):
        def path(eng, col):
            ctx.reset()
            st = hist.State(ctx._presets0)
            ops = []
            for i in range(K):
                op = gen_op(i, menu, invalid)
                ops.append(op)
                before = dech.run_decoder(ctx, PROBE)
                cur_before = st.cur
                hist.apply_op(api, st, op)
                hist.observe(api, st)
                hist.probe_unlisted(api, st, i, oderiv.derive, read_smiles, oderiv.compare_with_output)
                if st.cur is cur_before:
                    after = dech.run_decoder(ctx, PROBE)
                    if (before[0], str(before[1])) != (after[0], str(after[1])):
                        st.problem("decoder(%r) changed across %s, which must leave the table unchanged" % (PROBE, op["op"]))
                if any(c is True and "not a private copy" not in t for t, c in st.problems):
                    break
            col.nontrivial(tuple(o["op"] + str(o.get("name", o.get("which", ""))) for o in ops))
            col.sample([o["op"] for o in ops])
            judge(eng, col, st, ops, "config_history")
        return path

    import random
    rnd = random.Random(seed)
    few = sorted(rnd.sample(sorted(hist.INVALID_DICTS), 2) + ["valid_then_invalid"])
    SMALL = ["set_dict", "set_invalid", "get_mutate", "alphabet_mutate", "mutate_passed", "edit_and_reset"]
    plan = [(1, FULL, None), (2, FULL, None)]
    plan += [(3, SMALL, few)] if quick else [(3, FULL, None), (4, SMALL, few)]
    for K, menu, invalid in plan:
        left = t_end - time.time()
        name = "histories of %d calls over %d operation kinds, observation after every call" % (K, len(menu))
        if left < 5:
            rep.parts.append({"name": name, "complete": False, "paths": 0, "bounds": {"K": K}, "claim": "not started (time budget)"})
            continue
        res = driver.explore_parallel(level(K, menu, invalid), left * 0.8)
        rep.add_part(name, res, {"K": K, "operations": menu, "dict_values": "C and ? free in -1..9, N+1 = 2",
                                 "invalid_tables": invalid or sorted(hist.INVALID_DICTS), "wrong_types": sorted(hist.WRONG_TYPES)})
    rep.assumptions += ["histories of at most K calls from the listed operation kinds; custom tables have keys C, ? with free values in -1..9 and N+1 = 2 (negative => the real setter must reject)",
                        "observation after every call: get == last accepted table (solver-decided over the values), presets == import-time copies, alphabet derivable from the current table, decoder probe unchanged when the table is unchanged"]
    return ctx.stubs
