"""C16 - index symbols are a shared base-16 positional code."""
import z3

from .. import dech, driver, engine, symstr
from ..ctx import Ctx
from ..engine import fresh_int, zint, mk_int
from ..docs import DOC_INDEX
from ..symstr import SymTok, make_tokens, model_value
from ..oread import read_smiles


def doc_digit_expr(tok):
    """documented digit value of a (possibly symbolic) token, built independently of selfies"""
    if tok is None:
        return z3.IntVal(0)
    if isinstance(tok, str):
        return z3.IntVal(DOC_INDEX.index(tok) if tok in DOC_INDEX else 0)
    e = z3.IntVal(0)
    for i, v in enumerate(tok.vals):
        d = DOC_INDEX.index(v) if v in DOC_INDEX else 0
        if d:
            e = z3.If(tok.e == i, z3.IntVal(d), e)
    return e


def run(rep, tier, seed, budget):
    ctx = Ctx.get()
    gr, dec = ctx.gr, ctx.dec
    NMAX = 16 ** 3 if tier == "quick" else 16 ** 4
    rep.level = "model_checking"

    # ---- A: encoder-side conversion, n symbolic
    def path_a(eng, col):
        ctx.reset()
        n = fresh_int("n", 0, NMAX - 1)
        syms = gr.get_selfies_from_index(n)
        k = len(syms)
        back = gr.get_index_from_selfies(*syms)
        bads = [zint(back) != n.e]
        for i, s in enumerate(syms):
            d = (n.e / (16 ** (k - 1 - i))) % 16
            if isinstance(s, str):
                bads.append(d != (DOC_INDEX.index(s) if s in DOC_INDEX else -1))
            else:
                for j, v in enumerate(DOC_INDEX):
                    c = s._eq_cond(v)
                    bads.append(z3.And(d == j, z3.Not(c)))
        if k > 1:
            bads.append(n.e < 16 ** (k - 1))  # not the shortest
        bads.append(n.e >= 16 ** k)
        col.nontrivial(("len", k))
        col.sample({"n_range": "16^%d <= n < 16^%d" % (k - 1, k) if k > 1 else "0 <= n < 16", "symbols": k})
        m = eng.find_model(bads)
        if m is not None:
            col.candidate({"prop": "C16", "kind": "index", "n": m.eval(n.e, model_completion=True).as_long()})

    res = driver.explore_parallel(path_a, 120, nworkers=1)
    rep.add_part("A: get_selfies_from_index / get_index_from_selfies, n symbolic", res,
                 {"n": "0 <= n < %d (one path per digit count, digits symbolic)" % NMAX})

    # negative n must raise IndexError (documented precondition n >= 0): reachability twin
    # ---- B: decoder-side conversion through the real _read_index_from_selfies
    ALPHA = DOC_INDEX + ["[F]", "[=O]", "[Branch3]", "[epsilon]"]

    def path_b(eng, col):
        ctx.reset()
        L = int(fresh_int("L", 1, 3))          # number of index symbols requested
        avail = int(fresh_int("avail", 0, 3))  # symbols left in the string
        toks = make_tokens("i", min(L, avail), ALPHA)
        it = iter(list(enumerate(toks)))
        q = dec._read_index_from_selfies(it, n_symbols=L)
        if isinstance(q, tuple):  # (value, symbols consumed)
            q = q[0]
        want = z3.IntVal(0)
        for j in range(L):
            t = toks[j] if j < len(toks) else None
            want = want * 16 + doc_digit_expr(t)
        col.nontrivial((L, avail))
        col.sample({"symbols_requested": L, "symbols_available": avail})
        m = eng.find_model([zint(q) != want])
        if m is not None:
            syms = [model_value(m, t) for t in toks] + [None] * (L - len(toks))
            col.candidate({"prop": "C16", "kind": "index", "symbols": syms})

    res = driver.explore_parallel(path_b, 120, nworkers=1)
    rep.add_part("B: _read_index_from_selfies, 1-3 requested symbols, 0-3 available, each free over 20 symbols", res,
                 {"alphabet": ALPHA, "L": "1..3", "available": "0..3"})

    # ---- C: end to end through selfies.decoder
    CH = 24 if tier == "quick" else 300   # with fewer than 3 symbols present, Q = d*16 or d*256: targets clip to atom 0 for large d

    def _decode(x):
        r = dech.run_decoder(ctx, x)   # honours the M-TOK fidelity probe and the plain-string fallback
        if r[0] != "ok":
            raise r[1]
        return r[1]

    def path_c(eng, col):
        ctx.reset()
        what = int(fresh_int("what", 0, 1))
        L = int(fresh_int("L", 1, 2 if what == 1 else 3))
        avail = int(fresh_int("avail", 1, L)) if what == 0 else L   # ring: the string may end inside the index
        toks = make_tokens("i", avail, DOC_INDEX + ["[F]"])
        want_q = z3.IntVal(0)
        for j in range(L):
            want_q = want_q * 16 + doc_digit_expr(toks[j] if j < avail else None)
        if what == 0:
            m_ = CH
            x = symstr.TokStr(["[C]"] * m_ + ["[Ring%d]" % L] + toks)
            out = _decode(x)
            mol = read_smiles(str(out))
            rb = [k for k, b in mol.bonds.items() if b.kind == "ring"]
            last = m_ - 1
            # documented: target = max(0, last-(Q+1)); self/adjacent targets give no ring bond
            tgt = z3.If(last - (want_q + 1) > 0, last - (want_q + 1), 0)
            if rb:
                bads = [z3.Or(tgt != rb[0][0], len(rb) != 1, rb[0][1] != last)]
            else:
                bads = [z3.And(tgt != last, tgt != last - 1)]
            col.nontrivial(("ring", L, tuple(rb)))
            col.sample({"what": "ring", "L": L, "ring_bonds": rb})
            mdl = eng.find_model(bads)
            if mdl is not None:
                if avail < L:
                    col.candidate({"prop": "C16", "kind": "index", "symbols": [model_value(mdl, t) for t in toks] + [None] * (L - avail)})
                else:
                    col.candidate({"prop": "C16", "kind": "index_e2e", "what": "ring", "chain": m_,
                                   "symbols": [model_value(mdl, t) for t in toks]})
        else:
            m_ = CH
            x = symstr.TokStr(["[C]", "[Branch%d]" % L] + toks + ["[O]"] * m_ + ["[N]"])
            out = _decode(x)
            mol = read_smiles(str(out))
            nb = sorted(j for (i, j) in mol.bonds if i == 0)
            # documented: the branch takes min(Q+1, m+1) symbols
            if nb == [1]:
                bads = [want_q + 1 < m_ + 1]
            elif len(nb) == 2 and nb[0] == 1:
                bads = [want_q + 1 != nb[1] - 1]
            else:
                bads = [True]
            col.nontrivial(("branch", L, tuple(nb)))
            col.sample({"what": "branch", "L": L, "atom0_neighbours": nb})
            mdl = eng.find_model(bads)
            if mdl is not None:
                col.candidate({"prop": "C16", "kind": "index_e2e", "what": "branch", "chain": m_,
                               "symbols": [model_value(mdl, t) for t in toks]})

    res = driver.explore_parallel(path_c, 200 if tier == "quick" else 900)
    rep.add_part("C: ring target / branch extent through selfies.decoder, index symbols free", res,
                 {"chain_atoms": CH, "index_symbols": "1..2 (quick) / ring 1..3 (thorough), each free over 17 symbols"})
    # reachability probes (always replayed on the pristine package)
    rep.probe_cases += [{"prop": "C16", "kind": "index", "n": n, "advisory": True} for n in (0, 15, 16, 255, 256, 4095)]
    rep.assumptions += [
        "n bounded by %d; the digit loop is unrolled by path forking (one path per digit count)" % NMAX,
        "end-to-end part uses the default constraint table and a carbon chain of %d atoms" % CH,
        "python ints are mathematical integers (z3 Int)"]
    return ctx.stubs
