"""C01 - every SELFIES string decodes to a syntactically valid, valence-valid SMILES."""
import time

import z3

from .. import driver, engine, symstr, dech, lemmas
from ..ctx import Ctx, table_model
from ..engine import fresh_int, zint, SymInt
from ..symstr import TokStr, make_tokens, model_value

TRIANGLE = "[C][C][C][Ring1][Ring1]"


def explore_valid(ctx, rep, name, alphabet, keys, N, time_limit, caprange=(0, 9), rdkit=False, fixed_table=None):
    """all strings of N symbols over `alphabet` x all tables: syntax + valence of the real decoder's output"""
    def path(eng, col):
        if fixed_table is None:
            table = ctx.sym_table(keys, caprange[0], caprange[1])
        else:
            table = dict(fixed_table)
        ctx.reset(table)
        if alphabet and isinstance(alphabet[0], list):
            # template: one alphabet per position (a one-element alphabet is a fixed symbol)
            toks = []
            for i, al in enumerate(alphabet):
                toks += make_tokens("p%d_" % i, 1, al)
        else:
            toks = make_tokens("t", N, alphabet)
        r = dech.run_decoder(ctx, TokStr(toks))
        col.count(r[0])
        if r[0] != "ok":
            if r[0] == "exc":
                # totality is C08's claim; still hand the input to the concrete oracle (it ignores non-C01 faults)
                col.count("other_exception")
            return
        out = r[1]
        if not isinstance(out, str):
            out = str(out)
        faults, bads, mol = dech.valence_bads(out, table)
        col.nontrivial(out)
        col.sample({"output": out, "atoms": 0 if mol is None else len(mol.atoms)})
        if faults:
            m = eng.current_model()
            col.candidate({"prop": "C01", "kind": "decode_valid", "selfies": dech.concrete_selfies(m, toks),
                           "table": table_model(m, table) if fixed_table is None else None, "rdkit": rdkit})
            return
        m = eng.find_model(bads)
        if m is not None:
            col.candidate({"prop": "C01", "kind": "decode_valid", "selfies": dech.concrete_selfies(m, toks),
                           "table": table_model(m, table), "rdkit": rdkit})
        elif rdkit and out:
            from rdkit import Chem, RDLogger
            RDLogger.DisableLog("rdApp.*")
            if Chem.MolFromSmiles(out) is None:
                m = eng.current_model()
                col.candidate({"prop": "C01", "kind": "decode_valid", "selfies": dech.concrete_selfies(m, toks),
                               "table": None, "rdkit": True})

    res = driver.explore_parallel(path, time_limit)
    rep.add_part(name, res, {"alphabet": alphabet, "N_symbols": N,
                             "table": ("keys %s free in %d..%d" % (keys, caprange[0], caprange[1]))
                             if fixed_table is None else "default preset (concrete)"})
    return res


def run(rep, tier, seed, budget):
    ctx = Ctx.get()
    quick = tier == "quick"
    total = budget or (80 if quick else 1500)
    t_end = time.time() + total

    # (a) step lemmas over unbounded integers -------------------------------------------------
    lemmas.state_lemmas(ctx, rep, equalities=False)
    lemmas.crosshair_state_lemmas(ctx, rep)
    lemmas.ring_step(ctx, rep)
    lemmas.derive_step(ctx, rep)
    lemmas.ring_label_step(ctx, rep, nmax=120 if quick else 400, witness=lambda n: {
        "prop": "C01", "kind": "decode_valid", "table": None, "selfies": TRIANGLE * (n + 1)})

    lemmas.writer_graphs(ctx, rep, natoms=(3, 3) if quick else (4, 4), max_rings=3 if quick else 4, time_limit=40 if quick else 400)

    # (b) bounded whole-decoder exploration ---------------------------------------------------
    plan = []
    if quick:
        plan += [("core", dech.A_CORE, dech.KEYS_CORE, n) for n in (1, 2, 3, 4, 5, 6)]
        plan += [("dec", dech.A_DEC + ["."], dech.KEYS_DEC, n) for n in (1, 2, 3)]
    else:
        plan += [("core", dech.A_CORE, dech.KEYS_CORE, n) for n in (1, 2, 3, 4, 5, 6, 7, 8)]
        plan += [("dec", dech.A_DEC + ["."], dech.KEYS_DEC, n) for n in (1, 2, 3, 4)]
        plan += [("rings across fragments", ["[C]", "[Ring1]", "[Ring2]", "[=Ring1]", "."], ["C", "?"], n) for n in (6, 8, 10)]
        plan += [("idx3", ["[C]", "[=C]", "[Ring3]", "[Branch3]", "[=Ring2]", "[Branch2]", "[N]", "[epsilon]"],
                  dech.KEYS_DEC[:2] + ["?"], n) for n in (3, 5, 6)]
    # ring symbols before, inside and after a branch on the same atom: the same atom pair can be a ring candidate twice
    # with another ring bond to one of its atoms formed in between (state carried across iterations of the ring loop)
    RS, RS3 = ["[Ring1]", "[=Ring1]"], ["[Ring1]", "[=Ring1]", "[#Ring1]"]
    T_RINGS = [["[C]"], ["[C]", "[=C]"], ["[C]"], RS, ["[C]", "[Ring1]"], ["[Branch1]"], ["[Ring2]"], ["[C]"], RS3,
               ["[C]", "[Ring1]", "[Ring2]"], RS3, ["[C]", "[Ring1]"]]
    plan.insert(4 if quick else 6, ("rings before/in/after a branch (template)", T_RINGS, ["C", "?"], len(T_RINGS)))
    for tag, alpha, keys, n in plan:
        left = t_end - time.time()
        if left < 5:
            rep.parts.append({"name": "b/%s N=%d" % (tag, n), "complete": False, "paths": 0,
                              "bounds": {"N_symbols": n}, "claim": "not started (time budget)"})
            continue
        explore_valid(ctx, rep, "b/%s N=%d: decoder output syntax+valence" % (tag, n), alpha, keys, n, left * 0.8)

    # (c) RDKit clause: default table, robust-alphabet symbols ---------------------------------
    A_RD = ["[C]", "[=C]", "[#C]", "[N]", "[=N]", "[#N]", "[O]", "[=O]", "[F]", "[S]", "[=S]", "[P]", "[Br]",
            "[Branch1]", "[=Branch1]", "[Ring1]", "[=Ring1]", "[Ring2]"]
    default = dict(ctx._presets0["default"])
    for n in ((1, 2, 3) if quick else (1, 2, 3, 4)):
        left = t_end - time.time()
        if left < 5:
            rep.parts.append({"name": "c/rdkit N=%d" % n, "complete": False, "paths": 0,
                              "bounds": {"N_symbols": n}, "claim": "not started (time budget)"})
            continue
        explore_valid(ctx, rep, "c/rdkit N=%d: RDKit accepts outputs over robust-alphabet symbols" % n,
                      A_RD, None, n, left, rdkit=True, fixed_table=default)

    rep.assumptions += [
        "bounded parts: strings of exactly N symbols over the listed alphabets, capacities 0..9; longer strings, other symbols and capacities > 9 are outside the bounded claim",
        "step lemmas (a) are over unbounded integers; composing them into a claim for strings of every length is the induction argument of DESIGN.md 6/C01, not a solver verdict",
        "table installed directly into bond_constraints._current_constraints (set_semantic_constraints validation is C07/C12's subject)",
        "M-TOK cut: the character scanner split_selfies is not on this path (C14, C08 cover it)",
        "RDKit clause: concrete outputs only, default preset, 18 robust-alphabet symbols",
    ]
    rep.extra["alphabets"] = {"A_core": dech.A_CORE, "A_dec": dech.A_DEC + ["."]}
    return ctx.stubs
