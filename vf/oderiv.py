"""O-DERIV: an executable rendering of the SELFIES derivation rules, written from
docs/source/derivation.rst as amended by CHANGELOG v2.0.0 and pinned by
tests/test_specific_cases.py.  Shares no code with selfies.

It is ordinary Python over an explicit token array with positions.  Tokens may be
plain strings or pathsym proxies and capacities may be ints or SymInts: every
comparison then goes through the engine, so O-DERIV's own case distinctions are
decided by the solver on the same path as the implementation's.

Document drift followed here (pinned by tests, see DESIGN.md section 4):
  D1  ring symbols lower the derivation state by the ring bond order
  D2  an atom whose capacity is 0, met at a state > 0, is dropped and ends the instance
  D3  a ring bond from an atom to itself is skipped
"""
import re

from . import docs

try:  # proxies only exist in the symbolic process
    from .engine import sym_min as _smin, sym_max as _smax
except Exception:  # noqa: the replayer runs without z3
    _smin, _smax = min, max


class DerivError(Exception):
    def __init__(self, pos, sym):
        Exception.__init__(self, "symbol %r at position %d is outside the grammar" % (sym, pos))
        self.pos, self.sym = pos, sym


BRANCH = re.compile(r"^\[([=#]?)Branch([123])\]$")
RING = re.compile(r"^\[(=|#|[-/\\][-/\\])?Ring([123])\]$")
ATOM = re.compile(r"^\[([=#/\\]?)(\d*)([A-Z][a-z]?)(@{0,2})((?:H\d)?)((?:[+-][1-9][0-9]*)?)\]$")
ORDER = {"": 1, "=": 2, "#": 3, "/": 1, "\\": 1, "-": 1}
ORGANIC = {"B", "C", "N", "O", "S", "P", "F", "Cl", "Br", "I"}


class AtomSpec:
    __slots__ = ("element", "isotope", "chirality", "hcount", "charge", "pos", "encl")

    def key(self):
        if self.charge == 0:
            return self.element
        return "%s%+d" % (self.element, self.charge)

    def tup(self):
        return (self.element, self.isotope, self.chirality, self.hcount, self.charge)


def classify(sym):
    """('branch', order, L) | ('ring', order, L, (lmark, rmark)) | ('eps',) | ('atom', order, mark, AtomSpec) | ('bad',)"""
    m = BRANCH.match(sym)
    if m:
        return ("branch", ORDER[m.group(1)], int(m.group(2)))
    m = RING.match(sym)
    if m:
        b = m.group(1) or ""
        if b == "--":
            return ("bad",)
        if len(b) == 2:
            lm = b[0] if b[0] in "/\\" else None
            rm = b[1] if b[1] in "/\\" else None
            return ("ring", 1, int(m.group(2)), (lm, rm))
        return ("ring", ORDER[b], int(m.group(2)), (None, None))
    if sym == "[epsilon]":
        return ("eps",)
    m = ATOM.match(sym)
    if m:
        b, iso, el, chi, h, chg = m.groups()
        a = AtomSpec()
        a.element = el
        if sym[1 + len(b):-1] in ORGANIC:
            a.isotope, a.chirality, a.hcount, a.charge = None, None, None, 0
        else:
            if el not in docs._ELEMENTS:
                return ("bad",)
            a.isotope = int(iso) if iso else None
            a.chirality = chi or None
            a.hcount = int(h[1:]) if h else 0
            a.charge = int(chg) if chg else 0
        return ("atom", ORDER[b], b if b in ("/", "\\") else None, a)
    return ("bad",)


def idx_value(tok):
    """documented digit of an index symbol (0 for anything else / missing); keeps proxies symbolic"""
    if tok is None:
        return 0
    if isinstance(tok, str):
        return docs.DOC_INDEX.index(tok) if tok in docs.DOC_INDEX else 0
    return tok.pointwise(lambda s: docs.DOC_INDEX.index(s) if s in docs.DOC_INDEX else 0)


class Result:
    def __init__(self):
        self.atoms = []          # AtomSpec, derivation order
        self.bonds = {}          # (i, j) i<j -> [order, kind, marks]
        self.children = []       # per atom: child atom indices in derivation order
        self.parent = []         # per atom: parent index or None
        self.rings_at = []       # per atom: ring partners in formation order
        self.roots = []
        self.rings = []          # candidates (l, r, order, marks, pos, encl)
        self.counts = []
        self.error = None

    def nbr_seq(self, i):
        a = self.atoms[i]
        seq = []
        if self.parent[i] is not None:
            seq.append(("a", self.parent[i]))
        if a.hcount and a.chirality:
            seq.append(("H",))
        seq += [("a", j) for j in self.rings_at[i]]
        seq += [("a", j) for j in self.children[i]]
        return seq


def cap_of(table, a):
    k = a.key()
    c = table[k] if k in table else table["?"]
    return c - (a.hcount or 0)


def derive(tokens, table):
    """tokens: list of str / proxies (dots included, [nop] included).  Returns Result (error set on rejection)."""
    res = Result()
    # '.' starts a new fragment, [nop] is skipped: build the effective token arrays (positions count effective symbols)
    frags = [[]]
    for t in tokens:
        if t == ".":
            frags.append([])
        elif t == "[nop]":
            continue
        else:
            frags[-1].append(t)
    base = 0
    try:
        for fr in frags:
            _derive(res, fr, 0, None, 0, None, table, base, [])
            base += len(fr)
        _form_rings(res, table)
    except DerivError as ex:
        res.error = ex
    return res


def _read_index(fr, p, L):
    q = 0
    for k in range(L):
        t = fr[p + k] if p + k < len(fr) else None
        q = q * 16 + idx_value(t)
    return q


def _derive(res, fr, pos, budget, state, prev, table, base, encl):
    """one derivation instance; returns the number of symbols it consumed.  budget None = unbounded"""
    n = 0
    while state is not None and (budget is None or n < budget):
        if pos + n >= len(fr):
            break
        p = pos + n
        sym = str(fr[p])  # a symbol the derivation acts on is pinned (forks over what the path leaves open)
        n += 1
        c = classify(sym)
        if c[0] == "bad":
            raise DerivError(base + p, sym)
        if c[0] == "branch":
            _, b, L = c
            if state <= 1:
                continue
            ninit = _smin(state - 1, b)
            nxt = state - ninit
            q = _read_index(fr, pos + n, L)
            n += L
            n += _derive(res, fr, pos + n, q + 1, ninit, prev, table, base, encl + [base + p])
            state = nxt
        elif c[0] == "ring":
            _, r, L, marks = c
            if state == 0:
                continue
            order = _smin(r, state)
            left = state - order
            q = _read_index(fr, pos + n, L)
            n += L
            m = prev
            tgt = _smax(0, m - (q + 1))
            res.rings.append((int(tgt), m, order, marks, base + p))
            state = None if left == 0 else left
        elif c[0] == "eps":
            state = 0 if state == 0 else None
        else:
            _, beta, mark, a = c
            cap = cap_of(table, a)
            if cap < 0:
                raise DerivError(base + p, sym)
            mu = 0 if state == 0 else _smin(beta, state, cap)
            if mu == 0:
                if state == 0:
                    i = _add_atom(res, a, None, base + p, encl)
                    res.roots.append(i)
                    prev = i
                # D2: capacity 0 at a state > 0: the atom is not created
            else:
                i = _add_atom(res, a, prev, base + p, encl)
                res.bonds[(prev, i)] = [mu, "chain", {"fwd": mark}]
                res.children[prev].append(i)
                res.counts[prev] = res.counts[prev] + mu
                res.counts[i] = res.counts[i] + mu
                prev = i
            left = cap - mu
            state = None if left == 0 else left
    # symbols after termination are ignored (but count against the budget of this instance)
    rest = len(fr) - (pos + n)
    if budget is not None:
        room = budget - n
        rest = room if room < rest else rest  # budget may be symbolic
        if rest < 0:
            rest = 0
    return n + int(rest) if not isinstance(rest, int) else n + rest


def _add_atom(res, a, parent, pos, encl):
    a.pos, a.encl = pos, list(encl)
    res.atoms.append(a)
    res.children.append([])
    res.rings_at.append([])
    res.parent.append(parent)
    res.counts.append(0)
    return len(res.atoms) - 1


def _form_rings(res, table):
    for (l, r, order, marks, pos) in res.rings:
        if l == r:
            continue  # D3
        lfree = cap_of(table, res.atoms[l]) - res.counts[l]
        rfree = cap_of(table, res.atoms[r]) - res.counts[r]
        if lfree <= 0 or rfree <= 0:
            continue
        order = _smin(order, lfree, rfree)
        key = (l, r) if l < r else (r, l)
        if key in res.bonds:
            b = res.bonds[key]
            new = _smin(b[0] + order, 3)
            res.counts[l] = res.counts[l] + (new - b[0])
            res.counts[r] = res.counts[r] + (new - b[0])
            b[0] = new
        else:
            res.bonds[key] = [order, "ring", {"open": marks[0], "close": marks[1]}]
            res.rings_at[l].append(r)
            res.rings_at[r].append(l)
            res.counts[l] = res.counts[l] + order
            res.counts[r] = res.counts[r] + order


def compare_with_output(res, mol):
    """res: Result without error; mol: O-READ of the decoder's output.  Returns None or a text."""
    if len(res.atoms) != len(mol.atoms):
        return "derivation yields %d atoms, decoder output has %d" % (len(res.atoms), len(mol.atoms))
    for i, (a, b) in enumerate(zip(res.atoms, mol.atoms)):
        got = (b.element, b.isotope, b.chirality, b.hcount, b.charge)
        if a.tup() != got:
            return "atom %d: derivation gives %r, output has %r (%s)" % (i, a.tup(), got, b.text)
    want = {k: v for k, v in res.bonds.items()}
    if set(want) != set(mol.bonds):
        return "bonded pairs: derivation %s, output %s" % (sorted(want), sorted(mol.bonds))
    for k, (order, kind, marks) in want.items():
        ob = mol.bonds[k]
        o = int(order)
        if ob.order != o:
            return "bond %s: derivation gives order %d, output has %s" % (k, o, ob.order)
        if ob.kind != kind:
            return "bond %s: derivation makes a %s bond, output writes a %s bond" % (k, kind, ob.kind)
        exp = marks if o == 1 else {x: None for x in marks}
        if ob.marks != exp:
            return "bond %s: derivation gives marks %r, output has %r" % (k, exp, ob.marks)
    for i in range(len(res.atoms)):
        if res.nbr_seq(i) != mol.nbrs[i]:
            return "atom %d: written neighbour order %r, derivation gives %r" % (i, mol.nbrs[i], res.nbr_seq(i))
    roots = [i for i in range(len(res.atoms)) if res.parent[i] is None]
    if len(roots) != (mol.nfrag if mol.atoms else 0):
        return "derivation yields %d fragments, output has %d" % (len(roots), mol.nfrag)
    return None
