"""Pure judging helpers shared by the symbolic harnesses and the concrete replayer.
No selfies import, no z3 import."""
import re

from . import oread, docs

_BR = re.compile(r"^\[[=#]?Branch([123])\]$")
_RG = re.compile(r"^\[(?:[=#]|[-/\\][-/\\])?Ring([123])\]$")


def _wf_split(s):
    out, i, n = [], 0, len(s)
    while i < n:
        if s[i] != "[":
            return None
        j = i + 1
        while j < n and s[j] != "]":
            if s[j] in "[.":
                return None
            j += 1
        if j >= n:
            return None
        out.append(s[i:j + 1])
        i = j + 1
        if i < n and s[i] == ".":
            if i + 1 >= n:
                return None
            out.append(".")
            i += 1
    return out


def selfies_roles(symbols):
    """role of every symbol of an encoder-produced SELFIES fragment list: 'atom' / 'branch' / 'ring' / 'index' / 'dot'"""
    roles = []
    skip = 0
    for s in symbols:
        if s == ".":
            roles.append("dot")
            skip = 0
            continue
        if skip:
            roles.append("index")
            skip -= 1
            continue
        m = _BR.match(s)
        if m:
            roles.append("branch")
            skip = int(m.group(1))
            continue
        m = _RG.match(s)
        if m:
            roles.append("ring")
            skip = int(m.group(1))
            continue
        roles.append("atom")
    return roles


def _atom_text_of_symbol(sym):
    """SMILES atom text the decoder writes for an atom symbol (independent: strip bond prefix, keep brackets unless organic)"""
    body = sym[1:-1]
    if body[:1] in "=#/\\":
        body = body[1:]
    if body in ("B", "C", "N", "O", "S", "P", "F", "Cl", "Br", "I"):
        return body
    return "[" + body + "]"


def compare_mols(m_in, m_out):
    """C03 comparison of two O-READ molecules; returns None or (sig, text)"""
    if len(m_in.atoms) != len(m_out.atoms):
        return ("atom-count", "%d atoms in, %d atoms out" % (len(m_in.atoms), len(m_out.atoms)))
    for i, (a, b) in enumerate(zip(m_in.atoms, m_out.atoms)):
        if (a.element, a.isotope, a.charge) != (b.element, b.isotope, b.charge):
            return ("atom-identity", "atom %d is %s in the input and %s in the output" % (i, a.text, b.text))
        if a.hcount != b.hcount:
            return ("atom-hcount", "atom %d %s has H count %r in the input and %r (%s) in the output" % (i, a.text, a.hcount, b.hcount, b.text))
    if set(m_in.bonds) != set(m_out.bonds):
        return ("bond-set", "bonded pairs differ: only in input %s, only in output %s"
                % (sorted(set(m_in.bonds) - set(m_out.bonds))[:4], sorted(set(m_out.bonds) - set(m_in.bonds))[:4]))
    ndouble = {}
    for k, b in m_in.bonds.items():
        o = m_out.bonds[k].order
        if b.order == 1.5:
            if o not in (1, 2):
                return ("aromatic-bond-order", "aromatic bond %s became order %s" % (k, o))
            if o == 2:
                for x in k:
                    ndouble[x] = ndouble.get(x, 0) + 1
        elif o != b.order:
            return ("bond-order", "bond %s has order %s in the input and %s in the output" % (k, b.order, o))
    for x, n in ndouble.items():
        if n > 1:
            return ("aromatic-assignment", "atom %d received %d double bonds inside the former aromatic system" % (x, n))
    return None


def _std_symbol_of_atom(a):
    """expected SELFIES atom symbol body (without bond prefix), modulo @/@@ (which the encoder may flip)"""
    if not a.bracket:
        return a.element
    t = a.text
    body = t[1:-1]
    # aromatic element -> capitalised; drop atom class
    m = re.match(r"^([0-9]*)([A-Za-z][a-z]?)(.*?)(:[0-9]+)?$", body)
    iso, el, rest = m.group(1), m.group(2), m.group(3)
    return docs.standard_atom_text("[" + iso + el.capitalize() + rest + "]")


def _tok(s):
    """independent tokeniser for well-formed SELFIES: bracketed symbols and dots"""
    return re.findall(r"\[[^\[\]]*\]|\.", s)


def stereo_problem(m_in, m_out):
    """C04 comparison (skeletons already equal); returns None or (sig, text)"""
    for i, (a, b) in enumerate(zip(m_in.atoms, m_out.atoms)):
        if a.chirality is None and b.chirality is None:
            continue
        if (a.chirality is None) != (b.chirality is None):
            return ("chirality-lost", "atom %d tag %r became %r" % (i, a.chirality, b.chirality))
        p = oread.perm_parity(m_in.nbrs[i], m_out.nbrs[i])
        if p is None:
            return ("neighbours-differ", "atom %d neighbour sequences %r vs %r" % (i, m_in.nbrs[i], m_out.nbrs[i]))
        if len(m_in.nbrs[i]) < 3:
            continue
        if (a.chirality == b.chirality) != (p == 0):
            return ("chirality-inverted", "atom %d written neighbours %r -> %r (%s permutation) but tag %s -> %s"
                    % (i, m_in.nbrs[i], m_out.nbrs[i], "even" if p == 0 else "odd", a.chirality, b.chirality))
    for k, b in m_in.bonds.items():
        o = m_out.bonds[k]
        if not any(b.marks.values()) and not any(o.marks.values()):
            continue
        if b.kind != o.kind:
            return ("bond-kind-changed", "bond %s with marks %r is a %s bond in the input and a %s bond in the output" % (k, b.marks, b.kind, o.kind))
        if b.marks != o.marks:
            return ("bond-mark", "bond %s marks %r became %r" % (k, b.marks, o.marks))
    return None


def standard_symbol_problem(m_in, e):
    """C10: every atom symbol of the SELFIES string e carries the standard spelling of its SMILES atom"""
    w = _wf_split(e)
    if w is None:
        return ("malformed-output", "%r is not well formed" % e)
    roles = selfies_roles(w)
    atoms = [t for t, r in zip(w, roles) if r == "atom"]
    if len(atoms) != len(m_in.atoms):
        return None
    for a, sym in zip(m_in.atoms, atoms):
        body = sym[1:-1]
        if body[:1] in "=#/\\":
            body = body[1:]
        want = _std_symbol_of_atom(a)
        if want is not None and body.replace("@@", "@") != want.replace("@@", "@"):
            return ("non-standard-symbol", "atom %s spelled %r, standard spelling is %r" % (a.text, sym, want))
    return None


RING_AFTER_BRANCH = re.compile(r"\)[-=#/\\:]?(%[0-9][0-9]|[0-9])")


# ---------------------------------------------------------------------------
# O-KEK: which aromatic atoms need a pi bond (standard kinds only), matching existence


def aromatic_system(mol):
    """indices of aromatic atoms and the aromatic bonds (order 1.5) of an O-READ molecule"""
    abonds = [k for k, b in mol.bonds.items() if b.order == 1.5]
    atoms = sorted({i for k in abonds for i in k} | {i for i, a in enumerate(mol.atoms) if a.aromatic})
    return atoms, abonds


def pi_need(mol, i):
    """1 / 0 for the standard aromatic atom kinds, None when the kind is outside the standard list"""
    a = mol.atoms[i]
    if not a.aromatic:
        return None
    sig = 0
    narom = 0
    for (x, y), b in mol.bonds.items():
        if i in (x, y):
            if b.order == 1.5:
                sig += 1
                narom += 1
            else:
                sig += b.order
    if narom == 0:
        return None
    el = a.element
    if a.isotope is not None or a.chirality is not None:
        return None
    if not a.bracket:
        if el == "C":
            return 1 if sig <= 3 else (0 if sig == 4 else None)
        if el == "N":
            return 1 if sig == 2 else (0 if sig == 3 else None)
        if el == "P":
            # phosphinine-type p (2) needs a ring double bond; substituted p (3) and phosphole-oxide-type p(=O)(R) (5) do not
            return 1 if sig == 2 else (0 if sig in (3, 5) else None)
        if el == "O":
            return 0 if sig == 2 else None
        if el == "S":
            # thiophene-type s (2), sulfoxide-type s(=O) (4), sulfone-type s(=O)(=O) (6): lone pair donor, no ring double bond
            return 0 if sig in (2, 4, 6) else None
        return None
    tot = sig + (a.hcount or 0)
    if el == "C" and a.charge == 0:
        return 1 if tot == 3 else (0 if tot == 4 else None)
    if el == "N" and a.charge == 0:
        return 1 if tot == 2 else (0 if tot == 3 else None)
    if el == "N" and a.charge == 1:
        return 1 if tot == 3 else (0 if tot == 4 else None)
    if el in ("O", "S", "Se", "Te") and a.charge == 0:
        return 0 if tot == 2 else None
    return None


def has_perfect_matching(nodes, edges):
    nodes = sorted(nodes)
    idx = {v: k for k, v in enumerate(nodes)}
    adj = [0] * len(nodes)
    for a, b in edges:
        if a in idx and b in idx:
            adj[idx[a]] |= 1 << idx[b]
            adj[idx[b]] |= 1 << idx[a]
    full = (1 << len(nodes)) - 1
    memo = {}

    def rec(mask):
        if mask == full:
            return True
        if mask in memo:
            return memo[mask]
        i = 0
        while mask >> i & 1:
            i += 1
        cand = adj[i] & ~mask & ~(1 << i)
        r = False
        j = 0
        while cand >> j:
            if cand >> j & 1 and rec(mask | 1 << i | 1 << j):
                r = True
                break
            j += 1
        memo[mask] = r
        return r
    return rec(0)


def kekule_problem(m_in, m_out):
    """accepted aromatic input: judge the decoded structure (skeleton already compared by compare_mols)"""
    atoms, abonds = aromatic_system(m_in)
    for i in atoms:
        need = pi_need(m_in, i)
        nd = sum(1 for k in abonds if i in k and m_out.bonds[k].order == 2)
        if nd > 1:
            return ("two-double-bonds", "aromatic atom %d %s received %d double bonds in the former aromatic system" % (i, m_in.atoms[i].text, nd))
        if need is not None and nd != need:
            return ("pi-bond-count", "aromatic atom %d %s needs %d pi bond(s) in the ring system but received %d" % (i, m_in.atoms[i].text, need, nd))
    return None


def kekulizable(m_in):
    """True / False for systems of standard kinds only, None otherwise"""
    atoms, abonds = aromatic_system(m_in)
    needs = {}
    for i in atoms:
        if not any(i in k for k in abonds):
            continue
        n = pi_need(m_in, i)
        if n is None:
            return None
        needs[i] = n
    nodes = [i for i, n in needs.items() if n == 1]
    return has_perfect_matching(nodes, abonds)


def rejectable(m_in, table):
    """may encoder(strict=True) legitimately reject this aromatic input under `table`?
    True: yes (not kekulizable / some atom over capacity / non-standard kinds -> not judged); False: it must accept"""
    k = kekulizable(m_in)
    if k is not True:
        return True
    atoms, abonds = aromatic_system(m_in)
    for i, a in enumerate(m_in.atoms):
        sig = 0
        for (x, y), b in m_in.bonds.items():
            if i in (x, y):
                sig += 1 if b.order == 1.5 else b.order
        need = pi_need(m_in, i) if i in atoms and any(i in kk for kk in abonds) else 0
        if sig + (need or 0) + (a.hcount or 0) > oread.capacity(table, a):
            return True
    return False


import warnings


def run_corpus(decoder, encoder, DecoderError, EncoderError, sel, smi):
    out = []
    with warnings.catch_warnings():
        warnings.simplefilter("ignore")
        for x in sel:
            for comp in (False, True):
                for attr in (False, True):
                    try:
                        r = decoder(x, compatible=comp, attribute=attr)
                        out.append(repr(r))
                    except DecoderError:
                        out.append("DecoderError")
                    except Exception as ex:  # noqa
                        out.append("exc:" + type(ex).__name__)
        for s in smi:
            for strict in (False, True):
                for attr in (False, True):
                    try:
                        r = encoder(s, strict=strict, attribute=attr)
                        out.append(repr(r))
                    except EncoderError:
                        out.append("EncoderError")
                    except Exception as ex:  # noqa
                        out.append("exc:" + type(ex).__name__)
    return out
