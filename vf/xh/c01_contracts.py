from typing import Optional, Tuple
from selfies.grammar_rules import next_atom_state, next_branch_state, next_ring_state


def check_atom_state(bond_order: int, cap: int, state: int) -> bool:
    """
    pre: 1 <= bond_order <= 3 and cap >= 0 and state >= 0
    post: _
    """
    o, nxt = next_atom_state(bond_order, cap, state)
    want = 0 if state == 0 else min(bond_order, state, cap)
    return o == want and ((nxt is None and cap - o == 0) or (nxt is not None and nxt == cap - o and nxt > 0))


def check_branch_state(branch_type: int, state: int) -> bool:
    """
    pre: 1 <= branch_type <= 3 and state >= 2
    post: _
    """
    b, nxt = next_branch_state(branch_type, state)
    return b == min(state - 1, branch_type) and nxt is not None and nxt >= 1 and b + nxt == state


def check_ring_state(ring_type: int, state: int) -> bool:
    """
    pre: 1 <= ring_type <= 3 and state >= 1
    post: _
    """
    o, nxt = next_ring_state(ring_type, state)
    return o == min(ring_type, state) and ((nxt is None and state - o == 0) or (nxt is not None and nxt == state - o and nxt > 0))
