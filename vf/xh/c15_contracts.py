from typing import List
import selfies as sf

VOCABS = [
    ["[nop]", "[C]", "[=O]", "."],
    ["[C]", "[N]", "[F]", "[nop]"],
    ["[Cl]", "[nop]", ".", "[C@@H1]", "[Ring1]"],
]


def build(labels: List[int], vi: int) -> str:
    return "".join([VOCABS[vi][i] for i in labels])


def valid(labels: List[int], pad: int, vi: int) -> bool:
    if not (0 <= vi < len(VOCABS) and -2 <= pad <= 6 and len(labels) <= 4):
        return False
    v = VOCABS[vi]
    prev_dot = True
    for x in labels:
        if not (0 <= x < len(v)):
            return False
        if v[x] == ".":
            if prev_dot:
                return False
            prev_dot = True
        else:
            prev_dot = False
    if labels and v[labels[-1]] == ".":
        return False
    return True


def check_label(labels: List[int], pad: int, vi: int) -> bool:
    """
    pre: valid(labels, pad, vi)
    post: _
    """
    v = VOCABS[vi]
    stoi = {s: i for i, s in enumerate(v)}
    s = build(labels, vi)
    L = len(labels)
    lab = sf.selfies_to_encoding(s, stoi, pad_to_len=pad, enc_type="label")
    n = max(L, pad)
    return len(lab) == n and lab[:L] == labels and all(x == stoi["[nop]"] for x in lab[L:])


def check_onehot(labels: List[int], pad: int, vi: int) -> bool:
    """
    pre: valid(labels, pad, vi)
    post: _
    """
    v = VOCABS[vi]
    stoi = {s: i for i, s in enumerate(v)}
    s = build(labels, vi)
    L = len(labels)
    hot = sf.selfies_to_encoding(s, stoi, pad_to_len=pad, enc_type="one_hot")
    want = labels + [stoi["[nop]"]] * (max(L, pad) - L)
    if len(hot) != len(want):
        return False
    for row, idx in zip(hot, want):
        if len(row) != len(v) or sum(row) != 1 or row[idx] != 1:
            return False
    return True


def check_both(labels: List[int], pad: int, vi: int) -> bool:
    """
    pre: valid(labels, pad, vi)
    post: _
    """
    v = VOCABS[vi]
    stoi = {s: i for i, s in enumerate(v)}
    s = build(labels, vi)
    a, b = sf.selfies_to_encoding(s, stoi, pad_to_len=pad, enc_type="both")
    return a == sf.selfies_to_encoding(s, stoi, pad_to_len=pad, enc_type="label") and \
        b == sf.selfies_to_encoding(s, stoi, pad_to_len=pad, enc_type="one_hot")


def check_decode(labels: List[int], pad: int, vi: int) -> bool:
    """
    pre: valid(labels, pad, vi)
    post: _
    """
    v = VOCABS[vi]
    stoi = {s: i for i, s in enumerate(v)}
    itos = {i: s for i, s in enumerate(v)}
    s = build(labels, vi)
    L = len(labels)
    lab, hot = sf.selfies_to_encoding(s, stoi, pad_to_len=pad, enc_type="both")
    want = s + "[nop]" * (max(L, pad) - L)
    return sf.encoding_to_selfies(lab, itos, enc_type="label") == want and \
        sf.encoding_to_selfies(hot, itos, enc_type="one_hot") == want


def check_batch(a: List[int], b: List[int], pad: int, vi: int) -> bool:
    """
    pre: valid(a, pad, vi) and valid(b, pad, vi) and len(a) <= 3 and len(b) <= 2
    post: _
    """
    v = VOCABS[vi]
    stoi = {s: i for i, s in enumerate(v)}
    itos = {i: s for i, s in enumerate(v)}
    sa, sb = build(a, vi), build(b, vi)
    flat = sf.batch_selfies_to_flat_hot([sa, sb], stoi, pad)
    want = []
    for s in (sa, sb):
        hot = sf.selfies_to_encoding(s, stoi, pad_to_len=pad, enc_type="one_hot")
        want.append([x for row in hot for x in row])
    if flat != want:
        return False
    back = sf.batch_flat_hot_to_selfies(flat, itos)
    return back == [sa + "[nop]" * (max(len(a), pad) - len(a)), sb + "[nop]" * (max(len(b), pad) - len(b))]
