from typing import List
from selfies.utils.selfies_utils import split_selfies, len_selfies, get_alphabet_from_selfies


def my_split(s: str) -> List[str]:
    """independent scanner for well-formed strings; returns [] and sets ok False otherwise"""
    out = []
    i = 0
    n = len(s)
    while i < n:
        if s[i] != "[":
            return ["<bad>"]
        j = i + 1
        while j < n and s[j] != "]":
            if s[j] == "[" or s[j] == ".":
                return ["<bad>"]
            j += 1
        if j >= n:
            return ["<bad>"]
        out.append(s[i:j + 1])
        i = j + 1
        if i < n and s[i] == ".":
            if i + 1 >= n:
                return ["<bad>"]
            out.append(".")
            i += 1
    return out


def wellformed(s: str) -> bool:
    return my_split(s) != ["<bad>"]


def check_split_join(s: str) -> bool:
    """
    pre: len(s) <= 8
    pre: wellformed(s)
    post: _
    """
    items = list(split_selfies(s))
    return "".join(items) == s


def check_len(s: str) -> bool:
    """
    pre: len(s) <= 8
    pre: wellformed(s)
    post: _
    """
    return len(list(split_selfies(s))) == len_selfies(s)


def check_items(s: str) -> bool:
    """
    pre: len(s) <= 8
    pre: wellformed(s)
    post: _
    """
    return list(split_selfies(s)) == my_split(s)


def check_alphabet(a: str, b: str) -> bool:
    """
    pre: len(a) <= 5 and len(b) <= 4
    pre: wellformed(a) and wellformed(b)
    post: _
    """
    want = set(my_split(a)) | set(my_split(b))
    want.discard(".")
    return get_alphabet_from_selfies([a, b]) == want


def check_alphabet3(a: str, b: str, c: str) -> bool:
    """
    pre: len(a) <= 3 and len(b) <= 3 and len(c) <= 3
    pre: wellformed(a) and wellformed(b) and wellformed(c)
    post: _
    """
    want = set(my_split(a)) | set(my_split(b)) | set(my_split(c))
    want.discard(".")
    return get_alphabet_from_selfies([a, b, c]) == want
