"""E2: run CrossHair 0.0.110 on a contracts file against the pristine /repo package."""
import ast
import concurrent.futures as cf
import os
import re
import shutil
import subprocess
import sys
import time

VERIF = os.path.dirname(os.path.dirname(os.path.abspath(__file__)))


def run_contracts(src_path, per_condition_timeout=40, hard_timeout=None, only=None):
    """returns {function: {"status": confirmed|refuted|inconclusive, "message":..., "args":...}}"""
    tmp = os.path.join(VERIF, "out", "tmp")
    os.makedirs(tmp, exist_ok=True)
    name = os.path.basename(src_path)
    dst = os.path.join(tmp, "xh_%d_%s" % (os.getpid(), name))
    shutil.copyfile(src_path, dst)
    text = open(dst).read().split("\n")
    funcs = {}
    for i, line in enumerate(text):
        m = re.match(r"def (check_\w+)\(", line)
        if m and (only is None or m.group(1) in only):
            funcs[m.group(1)] = i + 2  # a line inside the def (1-based)
    env = dict(os.environ)
    env["PYTHONPATH"] = os.environ.get("VERIF_REPO", "/repo")
    env["PYTHONDONTWRITEBYTECODE"] = "1"
    hard = hard_timeout or (per_condition_timeout * 3 + 30)

    def one(fn):
        t0 = time.time()
        cmd = [sys.executable, "-m", "crosshair", "check", "--report_all",
               "--per_condition_timeout", str(per_condition_timeout), "%s:%d" % (dst, funcs[fn])]
        try:
            p = subprocess.run(cmd, env=env, cwd=tmp, capture_output=True, text=True, timeout=hard)
            out = (p.stdout + p.stderr).strip()
        except subprocess.TimeoutExpired:
            return fn, {"status": "inconclusive", "message": "hard timeout", "wall_s": time.time() - t0}
        res = {"status": "inconclusive", "message": out[-400:], "wall_s": round(time.time() - t0, 1)}
        if "Confirmed over all paths" in out and "error:" not in out:
            res["status"] = "confirmed"
        m = re.search(r"error: (.*?) when calling (\w+)\((.*)\)", out)
        if m:
            res["status"] = "refuted"
            res["message"] = m.group(0)[:400]
            try:
                res["args"] = list(ast.literal_eval("(" + m.group(3) + ",)"))
            except Exception:  # noqa
                res["args"] = None
        return fn, res

    results = {}
    try:
        with cf.ThreadPoolExecutor(max_workers=min(8, max(1, len(funcs)))) as ex:
            for fn, res in ex.map(one, list(funcs)):
                results[fn] = res
    finally:
        try:
            os.remove(dst)
        except OSError:
            pass
    return results
