"""O-READ: an independent reader for the OpenSMILES subset that selfies reads and
writes.  Shares no code with selfies.  Concrete strings only.

read_smiles(s) -> Mol with
  atoms   : list of AtomRec (written order)
  bonds   : dict (i, j) i<j -> BondRec(order, kind, marks)
  nbrs    : per atom, the written neighbour sequence used for chirality:
            items ('a', idx) for atoms, ('H',) for the implicit hydrogen of a
            bracket atom, ('r', label_serial) placeholders resolved to ('a', idx)
  faults  : list of (kind, position) syntax faults
  tokens  : list of (start, end, text, kind)
"""
import re

ORGANIC = ("Cl", "Br", "B", "C", "N", "O", "S", "P", "F", "I")
AROMATIC_ORGANIC = ("b", "c", "n", "o", "s", "p")
BRACKET_RE = re.compile(
    r"^\[(?P<iso>[0-9]*)(?P<el>[A-Z][a-z]?|[a-z][a-z]?|\*)(?P<chi>@{0,2})"
    r"(?P<h>(?:H[0-9]?)?)(?P<chg>(?:\+\+*|--*|[+-][0-9]+)?)(?P<cls>(?::[0-9]+)?)\]$")
BOND_ORDER = {"-": 1, "=": 2, "#": 3, "$": 4, ":": 1.5, "/": 1, "\\": 1}


class AtomRec:
    __slots__ = ("element", "aromatic", "isotope", "chirality", "hcount", "charge",
                 "bracket", "text", "start", "end", "frag")

    def key(self):
        """identity of the atom kind, spelling-independent"""
        return (self.element, self.isotope, self.charge, self.hcount or 0)

    def as_dict(self):
        return {k: getattr(self, k) for k in self.__slots__}


class BondRec:
    __slots__ = ("order", "kind", "marks", "explicit", "a", "b")
    # marks: chain bond: {'fwd': mark or None}; ring bond: {'open': mark, 'close': mark}


class Mol:
    def __init__(self):
        self.atoms = []
        self.bonds = {}
        self.nbrs = []
        self.faults = []
        self.tokens = []
        self.nfrag = 0
        self.ring_bonds = 0

    def bond_sum(self, i):
        s = 0
        for (a, b), br in self.bonds.items():
            if a == i or b == i:
                s += br.order
        return s

    def ok(self):
        return not self.faults


def parse_bracket(text):
    m = BRACKET_RE.match(text)
    if m is None:
        return None
    a = AtomRec()
    el = m.group("el")
    a.aromatic = el[0].islower()
    a.element = el.capitalize()
    a.isotope = int(m.group("iso")) if m.group("iso") else None
    a.chirality = m.group("chi") or None
    h = m.group("h")
    a.hcount = 0 if not h else (1 if h == "H" else int(h[1:]))
    c = m.group("chg")
    if not c:
        a.charge = 0
    elif c[-1].isdigit():
        a.charge = int(c[1:]) * (1 if c[0] == "+" else -1)
    else:
        a.charge = len(c) * (1 if c[0] == "+" else -1)
    a.bracket = True
    a.text = text
    return a


def read_smiles(s):
    mol = Mol()
    n = len(s)
    i = 0
    prev = None          # index of previous atom on the current chain
    stack = []           # (prev atom at '(' , position)
    pending_bond = None  # (char, pos)
    open_rings = {}      # label -> (atom idx, bond char, nbr slot index, pos)
    just_opened = False  # '(' just seen: branch must not be empty / start with ')'
    frag_has_atom = False
    after_dot = True
    frag = 0
    serial = 0

    def fault(kind, pos):
        mol.faults.append((kind, pos))

    def add_atom(a, start, end):
        nonlocal prev, pending_bond, frag_has_atom, after_dot, just_opened
        a.start, a.end, a.frag = start, end, frag
        idx = len(mol.atoms)
        mol.atoms.append(a)
        seq = []
        mol.nbrs.append(seq)
        if prev is not None:
            bc = pending_bond[0] if pending_bond else None
            br = BondRec()
            br.kind = "chain"
            br.explicit = bc
            br.a, br.b = prev, idx
            if bc is None:
                br.order = 1.5 if (mol.atoms[prev].aromatic and a.aromatic) else 1
            else:
                br.order = BOND_ORDER[bc]
            br.marks = {"fwd": bc if bc in ("/", "\\") else None}
            mol.bonds[(prev, idx)] = br
            mol.nbrs[prev].append(("a", idx))
            seq.append(("a", prev))
        elif pending_bond is not None:
            fault("bond-without-left-atom", pending_bond[1])
        if a.bracket and a.hcount and a.chirality:
            seq.append(("H",))
        pending_bond = None
        prev = idx
        frag_has_atom = True
        after_dot = False
        just_opened = False
        mol.tokens.append((start, end, s[start:end], "atom"))

    while i < n:
        ch = s[i]
        if ch == "[":
            j = s.find("]", i + 1)
            if j == -1:
                fault("unclosed-bracket", i)
                break
            a = parse_bracket(s[i:j + 1])
            if a is None:
                fault("bad-bracket-atom", i)
                a = AtomRec()
                a.element, a.aromatic, a.isotope, a.chirality, a.hcount, a.charge = "?", False, None, None, 0, 0
                a.bracket, a.text = True, s[i:j + 1]
            add_atom(a, i, j + 1)
            i = j + 1
            continue
        two = s[i:i + 2]
        if two in ("Cl", "Br"):
            a = AtomRec()
            a.element, a.aromatic, a.isotope, a.chirality, a.hcount, a.charge = two, False, None, None, None, 0
            a.bracket, a.text = False, two
            add_atom(a, i, i + 2)
            i += 2
            continue
        if ch in ORGANIC or ch in AROMATIC_ORGANIC:
            a = AtomRec()
            a.element, a.aromatic = ch.upper(), ch.islower()
            a.isotope, a.chirality, a.hcount, a.charge = None, None, None, 0
            a.bracket, a.text = False, ch
            add_atom(a, i, i + 1)
            i += 1
            continue
        if ch in BOND_ORDER:
            if pending_bond is not None:
                fault("double-bond-symbol", i)
            pending_bond = (ch, i)
            mol.tokens.append((i, i + 1, ch, "bond"))
            i += 1
            continue
        if ch == "(":
            if prev is None or just_opened:
                fault("branch-without-atom", i)
            if pending_bond is not None:
                fault("bond-before-paren", i)
                pending_bond = None
            stack.append((prev, i))
            just_opened = True
            mol.tokens.append((i, i + 1, ch, "open"))
            i += 1
            continue
        if ch == ")":
            if not stack:
                fault("unbalanced-close", i)
            else:
                if just_opened:
                    fault("empty-branch", i)
                prev = stack.pop()[0]
            if pending_bond is not None:
                fault("dangling-bond", pending_bond[1])
                pending_bond = None
            just_opened = False
            mol.tokens.append((i, i + 1, ch, "close"))
            i += 1
            continue
        if ch == ".":
            if pending_bond is not None:
                fault("dangling-bond", pending_bond[1])
                pending_bond = None
            if not frag_has_atom or just_opened:
                fault("empty-fragment", i)
            if stack:
                fault("dot-inside-branch", i)
            prev = None
            frag += 1
            frag_has_atom = False
            after_dot = True
            mol.tokens.append((i, i + 1, ch, "dot"))
            i += 1
            continue
        if ch.isdigit() or ch == "%":
            if ch == "%":
                lab = s[i + 1:i + 3]
                if len(lab) != 2 or not (lab[0] in "0123456789" and lab[1] in "0123456789"):
                    fault("bad-ring-label", i)
                    i += 1
                    continue
                end = i + 3
            else:
                if ch not in "0123456789":
                    fault("bad-ring-label", i)
                    i += 1
                    continue
                lab = ch
                end = i + 1
            label = int(lab)
            if prev is None or just_opened:
                fault("ring-label-without-atom", i)
                pending_bond = None
                i = end
                continue
            bc = pending_bond[0] if pending_bond else None
            pending_bond = None
            mol.tokens.append((i, end, s[i:end], "ring"))
            if label in open_rings:
                a_idx, a_bc, slot, pos = open_rings.pop(label)
                b_idx = prev
                if a_idx == b_idx:
                    fault("self-bond", i)
                    mol.nbrs[a_idx][slot] = ("x",)
                else:
                    key = (min(a_idx, b_idx), max(a_idx, b_idx))
                    if key in mol.bonds:
                        fault("duplicate-bond", i)
                        mol.nbrs[a_idx][slot] = ("x",)
                    else:
                        br = BondRec()
                        br.kind = "ring"
                        br.a, br.b = a_idx, b_idx
                        oa = BOND_ORDER[a_bc] if a_bc else None
                        ob = BOND_ORDER[bc] if bc else None
                        if oa is not None and ob is not None and oa != ob:
                            fault("mismatched-ring-bond", i)
                        o = oa if oa is not None else ob
                        if o is None:
                            o = 1.5 if (mol.atoms[a_idx].aromatic and mol.atoms[b_idx].aromatic) else 1
                        br.order = o
                        br.explicit = (a_bc, bc)
                        br.marks = {"open": a_bc if a_bc in ("/", "\\") else None,
                                    "close": bc if bc in ("/", "\\") else None}
                        mol.bonds[key] = br
                        mol.ring_bonds += 1
                        mol.nbrs[a_idx][slot] = ("a", b_idx)
                        mol.nbrs[b_idx].append(("a", a_idx))
            else:
                mol.nbrs[prev].append(("r", serial))
                open_rings[label] = (prev, bc, len(mol.nbrs[prev]) - 1, i)
                serial += 1
            i = end
            continue
        fault("bad-character", i)
        i += 1
    if pending_bond is not None:
        fault("dangling-bond", pending_bond[1])
    if stack:
        fault("unbalanced-open", stack[-1][1])
    if just_opened:
        fault("empty-branch", n)
    for label, (a_idx, a_bc, slot, pos) in open_rings.items():
        fault("unpaired-ring-label", pos)
        mol.nbrs[a_idx][slot] = ("x",)
    if n == 0 or not frag_has_atom:
        fault("empty-fragment", n)
    mol.nfrag = frag + 1
    return mol


def explicit_valence(mol, i):
    """sum of bond orders + explicit hydrogens of atom i (aromatic bonds count 1.5)"""
    a = mol.atoms[i]
    return mol.bond_sum(i) + (a.hcount or 0)


def table_key(a):
    """constraint-table key for an atom record, built independently: E, E+n, E-n"""
    if a.charge == 0:
        return a.element
    return "%s%s%d" % (a.element, "+" if a.charge > 0 else "-", abs(a.charge))


def capacity(table, a):
    k = table_key(a)
    return table[k] if k in table else table["?"]


def perm_parity(seq_a, seq_b):
    """parity (0 even, 1 odd) of the permutation taking seq_a to seq_b; None if not a permutation"""
    if sorted(map(repr, seq_a)) != sorted(map(repr, seq_b)) or len(set(map(repr, seq_a))) != len(seq_a):
        return None
    pos = {repr(x): i for i, x in enumerate(seq_a)}
    p = [pos[repr(x)] for x in seq_b]
    inv = 0
    for i in range(len(p)):
        for j in range(i + 1, len(p)):
            if p[i] > p[j]:
                inv += 1
    return inv % 2
