"""./check entry point."""
import argparse
import importlib
import os
import random
import subprocess
import sys
import time

from . import report


def main():
    ap = argparse.ArgumentParser()
    ap.add_argument("prop")
    ap.add_argument("--tier", default=os.environ.get("VERIF_TIER", "quick"), choices=["quick", "thorough"])
    ap.add_argument("--replay", default=None)
    ap.add_argument("--budget", type=float, default=None, help="override the wall-clock budget (s)")
    a = ap.parse_args()
    pid = a.prop.upper()
    if a.replay:
        env = dict(os.environ)
        env["PYTHONPATH"] = os.environ.get("VERIF_REPO", "/repo") + ":" + report.VERIF
        return subprocess.call([report.PRISTINE_PY, "-m", "vf.replay", "--show", a.replay], env=env, cwd=report.VERIF)
    seed = int(os.environ.get("VERIF_SEED", "0"))
    random.seed(seed)
    props = report.load_props()
    if pid not in props:
        print("unknown property", pid)
        return 2
    try:
        mod = importlib.import_module("vf.props.%s" % pid.lower())
    except ModuleNotFoundError as ex:
        print("HARNESS-ERROR no check for %s (%s)" % (pid, ex))
        return 2
    rep = report.Report(pid, a.tier, seed)
    try:
        from . import guards
        from .ctx import Ctx
        guards.translator_validation(Ctx.get(), rep, seed)
        from . import dech
        rep.extra["mtok_fidelity_probe"] = dech.probe_mtok(Ctx.get())
        stubs = mod.run(rep, a.tier, seed, a.budget)
    except BaseException as ex:  # noqa
        import traceback
        traceback.print_exc()
        print("HARNESS-ERROR %s: %r" % (pid, ex))
        return 2
    return report.finish(rep, props[pid], stubs=stubs or ())


if __name__ == "__main__":
    sys.exit(main())
