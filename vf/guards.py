"""Soundness guards that run with every check: translator validation (instrumented vs pristine package
on the repository's own inputs) and the cross-solver re-check of sampled queries (E3)."""
import csv
import glob
import os
import random
import re
import subprocess
import time
import warnings

from . import report

VERIF = report.VERIF


def corpus(seed, n_rows=300):
    sel, smi = [], []
    R = os.environ.get("VERIF_REPO", "/repo")
    for f in (R + "/tests/test_specific_cases.py", R + "/tests/test_selfies.py", R + "/tests/test_selfies_utils.py"):
        try:
            txt = open(f).read()
        except OSError:
            continue
        for m in re.finditer(r"\"((?:\[[^\"\[\]]*\]|\.)+)\"", txt):
            sel.append(m.group(1))
        for m in re.finditer(r"\"([A-Za-z0-9@+\-\[\]\(\)=#/\\%.:]{2,80})\"", txt):
            if not m.group(1).startswith("["):
                smi.append(m.group(1))
    rnd = random.Random(seed)
    rows = []
    for f in sorted(glob.glob(R + "/tests/test_sets/**/*.csv", recursive=True)):
        try:
            rr = list(csv.DictReader(open(f)))
        except Exception:  # noqa
            continue
        if not rr:
            continue
        key = [k for k in rr[0] if k and k.lower() == "smiles"]
        if not key:
            continue
        take = rr if len(rr) <= 40 else rnd.sample(rr, 40)
        rows += [r[key[0]].strip() for r in take]
    rnd.shuffle(rows)
    smi += rows[:n_rows]
    return sorted(set(sel)), sorted(set(smi))


from .judge import run_corpus  # noqa: shared with the replayer


def translator_validation(ctx, rep, seed):
    """the instrumented package and the pristine package must agree exactly on the repository's own inputs"""
    t0 = time.time()
    sel, smi = corpus(seed)
    ctx.reset()
    mine = run_corpus(ctx.dec.decoder, ctx.enc.encoder, ctx.exc.DecoderError, ctx.exc.EncoderError, sel, smi)
    ctx.reset()
    theirs = report.replay_cases([{"kind": "tv_batch", "selfies": sel, "smiles": smi}])
    ref = theirs[0].get("results") if theirs else None
    okk = ref == mine
    rep.extra["translator_validation"] = {"selfies_strings": len(sel), "smiles_strings": len(smi), "calls": len(mine),
                                          "agree": bool(okk), "wall_s": round(time.time() - t0, 2)}
    rep.validated += len(mine) if okk else 0
    if not okk:
        k = next((i for i, (a, b) in enumerate(zip(mine, ref or [])) if a != b), None)
        rep.errors.append("translator validation failed: instrumented and pristine package disagree (first difference at call %s: %s vs %s)"
                          % (k, mine[k][:120] if k is not None else None, (ref or [None])[k][:120] if k is not None and ref else None))
    return okk


def cross_solver(rep, samples, limit=24):
    """E3: re-decide sampled final queries with the z3 4.8.12 and cvc5 1.0 binaries"""
    if not samples:
        rep.extra["cross_solver"] = {"queries": 0}
        return
    tmp = os.path.join(VERIF, "out", "tmp")
    os.makedirs(tmp, exist_ok=True)
    res = {"queries": 0, "z3_4.8": {"agree": 0, "disagree": 0, "inconclusive": 0}, "cvc5_1.0": {"agree": 0, "disagree": 0, "inconclusive": 0}}
    t0 = time.time()
    for i, (smt, verdict) in enumerate(samples[:limit]):
        f = os.path.join(tmp, "e3_%d_%d.smt2" % (os.getpid(), i))
        with open(f, "w") as fh:
            fh.write("(set-logic ALL)\n" + smt)
        res["queries"] += 1
        for name, cmd in (("z3_4.8", ["/usr/bin/z3", "-T:20", f]), ("cvc5_1.0", ["cvc5", "--tlimit=20000", f])):
            try:
                p = subprocess.run(cmd, capture_output=True, text=True, timeout=30)
                out = (p.stdout + p.stderr).strip().split("\n")
                ans = [l.strip() for l in out if l.strip() in ("sat", "unsat", "unknown")]
                if "(error" in p.stdout or not ans or ans[0] == "unknown":
                    res[name]["inconclusive"] += 1
                elif ans[0] == verdict:
                    res[name]["agree"] += 1
                else:
                    res[name]["disagree"] += 1
                    rep.errors.append("cross-solver disagreement: in-process z3 said %s, %s says %s (%s)" % (verdict, name, ans[0], f))
                    continue
            except (subprocess.TimeoutExpired, OSError):
                res[name]["inconclusive"] += 1
        try:
            os.remove(f)
        except OSError:
            pass
    res["wall_s"] = round(time.time() - t0, 2)
    rep.extra["cross_solver"] = res
