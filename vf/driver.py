"""Parallel exploration driver, collectors, coverage tracing."""
import collections
import concurrent.futures as cf
import hashlib
import json
import multiprocessing as mp
import os
import sys
import time
import traceback

from . import engine
from .engine import Engine, Stats

NWORKERS = int(os.environ.get("VERIF_WORKERS", "0")) or min(16, os.cpu_count() or 1)


# ---------------------------------------------------------------------------
# line coverage of /repo/selfies while exploring (sys.monitoring, 3.12)

_COV = set()
_COV_ON = False
_TOOL = 3


def cov_start(root=None):
    root = root or os.path.join(os.environ.get("VERIF_REPO", "/repo"), "selfies")
    global _COV_ON
    if _COV_ON:
        return
    mon = getattr(sys, "monitoring", None)
    if mon is None:
        return
    try:
        mon.use_tool_id(_TOOL, "vfcov")
    except ValueError:
        pass

    def on_line(code, line):
        fn = code.co_filename
        if fn.startswith(root):
            _COV.add((fn[len(root) + 1:], line))
        return mon.DISABLE

    mon.register_callback(_TOOL, mon.events.LINE, on_line)
    mon.set_events(_TOOL, mon.events.LINE)
    _COV_ON = True


def cov_lines():
    return set(_COV)


def anchor_coverage(lines, anchors):
    """anchors: list of 'selfies/decoder.py:100-191' style strings -> dict"""
    out = {}
    byfile = collections.defaultdict(set)
    for f, ln in lines:
        byfile[f].add(ln)
    for a in anchors:
        for part in a.split(";"):
            part = part.strip()
            if ":" not in part:
                continue
            f, rng = part.split(":", 1)
            f = f.strip()
            if f.startswith("selfies/"):
                f = f[len("selfies/"):]
            hit = 0
            for r in rng.split(","):
                r = r.strip()
                try:
                    if "-" in r:
                        lo, hi = r.split("-")
                        lo, hi = int(lo), int(hi)
                    else:
                        lo = hi = int(r)
                except ValueError:
                    continue
                hit += len([x for x in byfile.get(f, ()) if lo <= x <= hi])
            out[part] = hit
    return out


# ---------------------------------------------------------------------------


def _plain(x, depth=0):
    """what crosses the process boundary must be plain data: anything else (a proxy that was not pinned, an object of the
    package under test) is replaced by its repr"""
    if x is None or isinstance(x, (bool, int, float, str)):
        return x if type(x) in (bool, int, float, str, type(None)) else (str(x) if isinstance(x, str) else int(x) if isinstance(x, int) and not isinstance(x, bool) else x)
    if depth > 8:
        return repr(x)[:200]
    if type(x) in (list, tuple):
        return [_plain(y, depth + 1) for y in x]
    if type(x) is dict:
        return {(k if isinstance(k, (str, int, float, bool, type(None))) else repr(k)): _plain(v, depth + 1) for k, v in x.items()}
    return repr(x)[:200]


class Collector:
    MAX_SAMPLES = 12
    MAX_CANDS = 400

    def __init__(self):
        self.cands = []
        self.cand_keys = set()
        self.samples = []
        self.counts = collections.Counter()
        self.keys = set()
        self.errors = []
        self.e3 = []

    def candidate(self, case):
        case = _plain(case)
        k = json.dumps(case, sort_keys=True, default=str)
        if k in self.cand_keys:
            return
        self.cand_keys.add(k)
        if len(self.cands) < self.MAX_CANDS:
            self.cands.append(case)
        self.counts["candidates"] += 1

    def sample(self, obj):
        if len(self.samples) < self.MAX_SAMPLES:
            self.samples.append(_plain(obj))

    def count(self, name, n=1):
        self.counts[name] += n

    def nontrivial(self, key):
        self.keys.add(hashlib.blake2b(repr(key).encode(), digest_size=8).digest())

    def error(self, msg):
        if len(self.errors) < 20:
            self.errors.append(msg)
        self.counts["harness_errors"] += 1

    def merge(self, o):
        for c in o.cands:
            self.candidate(c)
        for s in o.samples:
            self.sample(s)
        self.counts.update({k: v for k, v in o.counts.items() if k != "candidates"})
        self.keys |= o.keys
        for e in o.errors:
            self.error(e)
        for x in getattr(o, "e3", []):
            if len(self.e3) < 40:
                self.e3.append(x)


class Result:
    def __init__(self):
        self.stats = Stats()
        self.col = Collector()
        self.cov = set()
        self.complete = True
        self.wall = 0.0
        self.tasks = 0

    def absorb(self, stats, col, cov):
        self.stats.add(stats)
        self.col.merge(col)
        self.cov |= cov


_TASK = {}


def _run_paths(prefixes, slice_s, max_decisions):
    """explore subtrees in this process; returns (stats, collector, cov, leftovers)"""
    path_fn = _TASK["fn"]
    eng = Engine(max_decisions=max_decisions)
    engine.set_engine(eng)
    col = Collector()

    def one(e):
        try:
            path_fn(e, col)
        except engine.Budget as b:
            col.count("budget_paths")
            hook = _TASK.get("on_budget")
            if hook is not None:
                hook(e, col, b)
            else:
                col.error("decision budget exhausted on a path: %s" % (b,))
        except engine.Inconclusive as u:
            col.error("solver answered unknown: %s" % (u,))
        except engine.HarnessError as h:
            col.error("harness error: %s\n%s" % (h, traceback.format_exc(limit=8)))
        except Exception as ex:  # noqa: a bug in the harness itself (exceptions of the code under test are caught there)
            col.error("harness raised %r\n%s" % (ex, traceback.format_exc(limit=6)))
    try:
        left = eng.explore(one, prefixes=prefixes, time_slice=slice_s)
    except engine.EngineSignal as s:
        col.error("engine signal escaped: %r" % (s,))
        left = []
    col.e3 = list(eng.e3_samples)
    return eng.stats.as_dict(), col, cov_lines(), left


def _worker(prefixes, slice_s, max_decisions):
    try:
        return _run_paths(prefixes, slice_s, max_decisions)
    except BaseException as ex:  # report, do not hang the pool
        col = Collector()
        col.error("worker crashed: %s\n%s" % (ex, traceback.format_exc(limit=12)))
        return Stats().as_dict(), col, set(), []


def explore_parallel(path_fn, time_limit, nworkers=None, slice_s=2.0, max_decisions=4000,
                     seed_slice=1.0, on_budget=None):
    """Explore every path of path_fn(eng, col).  Returns a Result; Result.complete
    is False when the time limit stopped the exploration."""
    nworkers = nworkers or NWORKERS
    _TASK["fn"] = path_fn
    _TASK["on_budget"] = on_budget
    cov_start()
    res = Result()
    t0 = time.time()
    # phase 1: seed in this process for a short slice
    stats, col, cov, left = _run_paths([[]], seed_slice, max_decisions)
    res.absorb(stats, col, cov)
    res.tasks += 1
    if left and nworkers > 1:
        ctx = mp.get_context("fork")
        with cf.ProcessPoolExecutor(max_workers=nworkers, mp_context=ctx) as ex:
            queue = collections.deque(left)
            pending = set()
            stop = False
            while queue or pending:
                now = time.time()
                if now - t0 > time_limit:
                    stop = True
                while queue and len(pending) < nworkers * 2 and not stop:
                    # hand out small batches so that work spreads quickly
                    k = max(1, min(8, len(queue) // (nworkers * 2)))
                    batch = [queue.pop() for _ in range(min(k, len(queue)))]
                    pending.add(ex.submit(_worker, batch, slice_s, max_decisions))
                if not pending:
                    break
                done, pending = cf.wait(pending, timeout=1.0, return_when=cf.FIRST_COMPLETED)
                for f in done:
                    stats, col, cov, lf = f.result()
                    res.absorb(stats, col, cov)
                    res.tasks += 1
                    queue.extend(lf)
                if stop and not pending:
                    break
            if queue:
                res.complete = False
                res.col.count("unexplored_subtrees", len(queue))
    elif left:
        queue = list(left)
        while queue and time.time() - t0 <= time_limit:
            stats, col, cov, lf = _run_paths([queue.pop()], slice_s, max_decisions)
            res.absorb(stats, col, cov)
            queue.extend(lf)
        if queue:
            res.complete = False
            res.col.count("unexplored_subtrees", len(queue))
    res.wall = time.time() - t0
    return res
