"""Shared harness context: the instrumented package, per-path reset, tables."""
import sys
import z3

from . import engine, symstr
from .engine import SymInt, fresh_int

import os

REPO = os.environ.get("VERIF_REPO", "/repo")  # development only: point the checks at a scratch copy


class Ctx:
    _inst = None

    @classmethod
    def get(cls):
        if cls._inst is None:
            cls._inst = cls()
        return cls._inst

    def __init__(self):
        from . import driver
        driver.cov_start()
        self.sf = symstr.load_instrumented(REPO)
        M = lambda n: sys.modules.get("selfies." + n)
        self.dec = M("decoder")
        self.enc = M("encoder")
        self.gr = M("grammar_rules")
        self.mg = M("mol_graph")
        self.bc = M("bond_constraints")
        self.su = M("utils.smiles_utils")
        self.sfu = M("utils.selfies_utils")
        self.eu = M("utils.encoding_utils")
        self.mu = M("utils.matching_utils")
        self.cp = M("compatibility")
        self.co = M("constants")
        self.exc = M("exceptions")
        self._atom_cache0 = dict(self.gr._PROCESS_ATOM_CACHE) if hasattr(self.gr, "_PROCESS_ATOM_CACHE") else None
        from .docs import presets_doc
        self._presets0 = presets_doc()   # documented presets (the oracle side of every history)
        self._presets_import = {k: dict(v) for k, v in getattr(self.bc, "_PRESET_CONSTRAINTS", {}).items()}
        # generic snapshot of every module-level mutable container of the package (whatever it is called):
        # restored in place before every path, so that re-execution is deterministic also for state the harness does not know by name
        self._globals0 = []
        for mname, mod in list(sys.modules.items()):
            if mod is None or not (mname == "selfies" or mname.startswith("selfies.")):
                continue
            for nm, obj in list(vars(mod).items()):
                if nm.startswith("__") or not isinstance(obj, (dict, list, set)):
                    continue
                if isinstance(obj, dict):
                    snap = dict(obj)
                elif isinstance(obj, list):
                    snap = list(obj)
                else:
                    snap = set(obj)
                self._globals0.append((mod, nm, obj, snap))
        self.stubs = list(symstr.WRAPPED) + ["injected names: " + ", ".join(sorted(symstr.INJECTED))]

    # -- per-path reset of module-level mutable state
    def _restore_globals(self):
        for mod, nm, obj, snap in self._globals0:
            try:
                if isinstance(obj, dict):
                    if len(obj) != len(snap) or any(k not in obj or obj[k] is not v for k, v in snap.items()):
                        dict.clear(obj)
                        dict.update(obj, snap)
                elif isinstance(obj, list):
                    if len(obj) != len(snap) or any(a is not b for a, b in zip(obj, snap)):
                        obj[:] = snap
                elif obj != snap:
                    obj.clear()
                    obj.update(snap)
                if vars(mod).get(nm) is not obj:
                    setattr(mod, nm, obj)
            except Exception:  # noqa
                pass

    def reset(self, table=None):
        gr, bc, mg = self.gr, self.bc, self.mg
        self._restore_globals()
        if self._atom_cache0 is not None:
            c = gr._PROCESS_ATOM_CACHE
            dict.clear(c)
            dict.update(c, self._atom_cache0)
        # every functools cache anywhere in the package (also ones a later version may add)
        for mname, mod in list(sys.modules.items()):
            if mod is None or not (mname == "selfies" or mname.startswith("selfies.")):
                continue
            for nm, fn in list(vars(mod).items()):
                if callable(fn) and hasattr(fn, "cache_clear") and hasattr(fn, "cache_info"):
                    try:
                        fn.cache_clear()
                    except Exception:  # noqa
                        pass
        prop = getattr(mg.Atom, "bonding_capacity", None)
        if isinstance(prop, property) and hasattr(prop.fget, "cache_clear"):
            prop.fget.cache_clear()
        # presets back to their import-time contents (same objects; the mapping itself is restored by _restore_globals,
        # so a preset that is built lazily is "not built yet" again at the start of every path, as in a fresh process)
        store = getattr(bc, "_PRESET_CONSTRAINTS", None)
        if isinstance(store, dict):
            for k, v in self._presets_import.items():
                cur = store.get(k)
                if cur is None:
                    store[k] = dict(v)
                elif cur != v:
                    cur.clear()
                    cur.update(v)
            for k in list(store):
                if k not in self._presets_import:
                    del store[k]
        if table is None:
            if isinstance(store, dict) and "default" in store:
                bc._current_constraints = store["default"]
            else:
                bc.set_semantic_constraints("default")
        else:
            bc._current_constraints = table

    def sym_table(self, keys, lo=0, hi=9, prefix="cap"):
        """M-TAB: a table with the given keys and free integer values in lo..hi"""
        t = {}
        for k in keys:
            t[k] = fresh_int("%s_%s" % (prefix, k.replace("+", "p").replace("-", "m").replace("?", "q")), lo, hi)
        return t


def table_model(model, table):
    return {k: (model.eval(v.e, model_completion=True).as_long() if isinstance(v, SymInt) else v)
            for k, v in table.items()}
