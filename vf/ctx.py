"""Shared harness context: the instrumented package, per-path reset, tables."""
import sys
import z3

from . import engine, symstr
from .engine import SymInt, fresh_int

import os

REPO = os.environ.get("VERIF_REPO", "/repo")  # development only: point the checks at a scratch copy


class Ctx:
    _inst = None

    @classmethod
    def get(cls):
        if cls._inst is None:
            cls._inst = cls()
        return cls._inst

    def __init__(self):
        from . import driver
        driver.cov_start()
        self.sf = symstr.load_instrumented(REPO)
        M = lambda n: sys.modules.get("selfies." + n)
        self.dec = M("decoder")
        self.enc = M("encoder")
        self.gr = M("grammar_rules")
        self.mg = M("mol_graph")
        self.bc = M("bond_constraints")
        self.su = M("utils.smiles_utils")
        self.sfu = M("utils.selfies_utils")
        self.eu = M("utils.encoding_utils")
        self.mu = M("utils.matching_utils")
        self.cp = M("compatibility")
        self.co = M("constants")
        self.exc = M("exceptions")
        self._atom_cache0 = dict(self.gr._PROCESS_ATOM_CACHE) if hasattr(self.gr, "_PROCESS_ATOM_CACHE") else None
        from .docs import presets_doc
        self._presets0 = presets_doc()   # documented presets (the oracle side of every history)
        self._presets_import = {k: dict(v) for k, v in getattr(self.bc, "_PRESET_CONSTRAINTS", {}).items()}
        # generic snapshot of every module-level mutable container of the package (whatever it is called):
        # restored in place before every path, so that re-execution is deterministic also for state the harness does not know by name
        self._globals0 = []
        for mname, mod in list(sys.modules.items()):
            if mod is None or not (mname == "selfies" or mname.startswith("selfies.")):
                continue
            for nm, obj in list(vars(mod).items()):
                if nm.startswith("__") or not isinstance(obj, (dict, list, set)):
                    continue
                if isinstance(obj, dict):
                    snap = dict(obj)
                elif isinstance(obj, list):
                    snap = list(obj)
                else:
                    snap = set(obj)
                self._globals0.append((mod, nm, obj, snap))
        # ... and of every module-level *object* of a class the package defines (e.g. a holder of the active table and
        # its caches): its attributes (slots or __dict__) are put back, containers with their import-time contents
        self._objs0 = []
        import enum
        import types
        for mname, mod in list(sys.modules.items()):
            if mod is None or not (mname == "selfies" or mname.startswith("selfies.")):
                continue
            for nm, obj in list(vars(mod).items()):
                cls = type(obj)
                if nm.startswith("__") or isinstance(obj, (type, types.ModuleType, types.FunctionType, types.BuiltinFunctionType, enum.Enum)):
                    continue
                if not str(getattr(cls, "__module__", "")).startswith("selfies") or callable(obj):
                    continue
                if any(o is obj for o, _ in self._objs0):
                    continue
                names = []
                for k in cls.__mro__:
                    sl = k.__dict__.get("__slots__", ())
                    names += [sl] if isinstance(sl, str) else list(sl)
                names += list(getattr(obj, "__dict__", {}))
                attrs = {}
                for a in names:
                    try:
                        v = getattr(obj, a)
                    except AttributeError:
                        continue
                    snap = dict(v) if isinstance(v, dict) else list(v) if isinstance(v, list) else set(v) if isinstance(v, set) else None
                    attrs[a] = (v, snap)
                self._objs0.append((obj, attrs))
        self.stubs = list(symstr.WRAPPED) + ["injected names: " + ", ".join(sorted(symstr.INJECTED))]

    # -- per-path reset of module-level mutable state
    def _restore_globals(self):
        for mod, nm, obj, snap in self._globals0:
            try:
                if isinstance(obj, dict):
                    if len(obj) != len(snap) or any(k not in obj or obj[k] is not v for k, v in snap.items()):
                        dict.clear(obj)
                        dict.update(obj, snap)
                elif isinstance(obj, list):
                    if len(obj) != len(snap) or any(a is not b for a, b in zip(obj, snap)):
                        obj[:] = snap
                elif obj != snap:
                    obj.clear()
                    obj.update(snap)
                if vars(mod).get(nm) is not obj:
                    setattr(mod, nm, obj)
            except Exception:  # noqa
                pass

    def _restore_objects(self):
        for obj, attrs in self._objs0:
            for a, (v, snap) in attrs.items():
                try:
                    if getattr(obj, a, None) is not v:
                        setattr(obj, a, v)
                    if snap is not None and v != snap:
                        v.clear()
                        v.update(snap) if not isinstance(v, list) else v.extend(snap)
                except Exception:  # noqa
                    pass

    def _install_table(self, table):
        """make `table` (values may be proxies) the table in force: directly where the package keeps it in the module global
        this harness knows, otherwise - or if the getter does not hand the same values back - through the real setter
        (its validation is decided from the value ranges)"""
        bc = self.bc
        if hasattr(bc, "_current_constraints"):
            bc._current_constraints = table
            try:
                got = bc.get_semantic_constraints()
                if len(got) == len(table) and all(k in got and got[k] is v for k, v in table.items()):
                    return
            except Exception:  # noqa
                pass
        bc.set_semantic_constraints(dict(table))

    def reset(self, table=None):
        gr, bc, mg = self.gr, self.bc, self.mg
        self._restore_globals()
        self._restore_objects()
        if self._atom_cache0 is not None:
            c = gr._PROCESS_ATOM_CACHE
            dict.clear(c)
            dict.update(c, self._atom_cache0)
        # every functools cache anywhere in the package (also ones a later version may add)
        for mname, mod in list(sys.modules.items()):
            if mod is None or not (mname == "selfies" or mname.startswith("selfies.")):
                continue
            for nm, fn in list(vars(mod).items()):
                if callable(fn) and hasattr(fn, "cache_clear") and hasattr(fn, "cache_info"):
                    try:
                        fn.cache_clear()
                    except Exception:  # noqa
                        pass
        prop = getattr(mg.Atom, "bonding_capacity", None)
        if isinstance(prop, property) and hasattr(prop.fget, "cache_clear"):
            prop.fget.cache_clear()
        # presets back to their import-time contents (same objects; the mapping itself is restored by _restore_globals,
        # so a preset that is built lazily is "not built yet" again at the start of every path, as in a fresh process)
        store = getattr(bc, "_PRESET_CONSTRAINTS", None)
        if isinstance(store, dict):
            for k, v in self._presets_import.items():
                cur = store.get(k)
                if cur is None:
                    store[k] = dict(v)
                elif cur != v:
                    cur.clear()
                    cur.update(v)
            for k in list(store):
                if k not in self._presets_import:
                    del store[k]
        if table is None:
            if isinstance(store, dict) and "default" in store and hasattr(bc, "_current_constraints"):
                bc._current_constraints = store["default"]
            else:
                bc.set_semantic_constraints("default")
        else:
            self._install_table(table)

    def sym_table(self, keys, lo=0, hi=9, prefix="cap"):
        """M-TAB: a table with the given keys and free integer values in lo..hi"""
        t = {}
        for k in keys:
            t[k] = fresh_int("%s_%s" % (prefix, k.replace("+", "p").replace("-", "m").replace("?", "q")), lo, hi)
        return t


def table_model(model, table):
    return {k: (model.eval(v.e, model_completion=True).as_long() if isinstance(v, SymInt) else v)
            for k, v in table.items()}
