"""pathsym engine: dynamic symbolic execution of the real selfies modules.

Concrete Python execution on proxy values; z3 decides branch feasibility; one
path at a time, depth-first, by deterministic re-execution of a decision
prefix ("trail").  See DESIGN.md section 2 (E1).
"""
import time
import z3

# ---------------------------------------------------------------------------
# control-flow exceptions (BaseException so that `except Exception/ValueError/
# KeyError/StopIteration` in the code under test can never swallow them)


class EngineSignal(BaseException):
    pass


class Infeasible(EngineSignal):
    """current path condition is unsatisfiable (should not normally happen)"""


class Cut(EngineSignal):
    """work item boundary reached (time slice or depth); trail saved"""


class Budget(EngineSignal):
    """decision/step budget exhausted on this path"""


class Inconclusive(EngineSignal):
    """solver answered unknown"""


class HarnessError(EngineSignal):
    """a proxy met an operation it does not model, or replay desynchronised"""


ENG = None  # the active engine (one per process)


def set_engine(e):
    global ENG
    ENG = e


class Stats:
    FIELDS = ("paths", "decisions", "forks", "conc_forks", "queries", "solver_s",
              "infeasible", "budget_hits", "unknown", "assert_queries")

    def __init__(self):
        for f in self.FIELDS:
            setattr(self, f, 0)

    def add(self, other):
        for f in self.FIELDS:
            setattr(self, f, getattr(self, f) + (other[f] if isinstance(other, dict) else getattr(other, f)))

    def as_dict(self):
        return {f: getattr(self, f) for f in self.FIELDS}


class Engine:
    def __init__(self, max_decisions=4000, solver_timeout_ms=20000):
        self.solver = z3.Solver()
        self.solver.set("timeout", solver_timeout_ms)
        self.stats = Stats()
        self.max_decisions = max_decisions
        self.trail = []
        self.pos = 0
        self.stack = []
        self.model = None
        self.deadline = None
        self.pcs = []
        self.notes = {}
        self.doms = {}
        self.decided = {}
        self.e3_samples = []   # (smt2 text, verdict) of sampled final queries, re-decided by other solvers (guard E3)
        self.e3_every = 37
        self.e3_max = 6

    # ---- solver helpers
    def _check(self, *assump):
        t = time.perf_counter()
        r = self.solver.check(*assump)
        self.stats.solver_s += time.perf_counter() - t
        self.stats.queries += 1
        if r == z3.unknown:
            self.stats.unknown += 1
            raise Inconclusive(self.solver.reason_unknown())
        return r == z3.sat

    def _ensure_model(self):
        if self.model is None:
            if not self._check():
                self.stats.infeasible += 1
                raise Infeasible()
            self.model = self.solver.model()
        return self.model

    def assume(self, c):
        """add a constraint to the path condition (harness preconditions)."""
        if isinstance(c, bool):
            if not c:
                raise Infeasible()
            return
        self.solver.add(c)
        self.pcs.append(c)
        if self.model is not None:
            try:
                if not z3.is_true(self.model.eval(c, model_completion=True)):
                    self.model = None
            except z3.Z3Exception:
                self.model = None

    def _assert_decided(self, c):
        # same as self.solver.add(c), without z3py's per-call coercion overhead
        z3.Z3_solver_assert(self.solver.ctx.ref(), self.solver.solver, c.as_ast())
        self.pcs.append(c)

    # ---- decisions
    def branch(self, cond, dom=None):
        """decide a z3 Bool on the current path; forks when both sides are feasible.
        dom = (var_id, n_alternatives, frozenset(indices)) when cond is `var in indices`
        for a finite-domain variable: the engine then tracks the feasible set of
        that variable and answers implied conditions without a query."""
        if isinstance(cond, bool):
            return cond
        if z3.is_true(cond):
            return True
        if z3.is_false(cond):
            return False
        cid = cond.get_id()
        hit = self.decided.get(cid)
        if hit is not None:
            return hit
        if dom is not None:
            vid, n, S = dom
            cur = self.doms.get(vid)
            if cur is not None:
                if cur <= S:
                    return True
                if not (cur & S):
                    return False
        d = self._branch(cond)
        self.decided[cid] = d
        if dom is not None:
            vid, n, S = dom
            cur = self.doms.get(vid)
            if cur is None:
                cur = frozenset(range(n))
            self.doms[vid] = (cur & S) if d else (cur - S)
        return d

    def _branch(self, cond):
        if self.pos < len(self.trail):
            d = self.trail[self.pos]
            if not isinstance(d, bool):
                raise HarnessError("replay desynchronised: expected branch, trail has %r" % (d,))
            self.pos += 1
            self.model = None  # a model cached earlier on this path need not satisfy a replayed decision
            self._assert_decided(cond if d else z3.Not(cond))
            return d
        self._new_decision()
        m = self._ensure_model()
        v = m.eval(cond, model_completion=True)
        if z3.is_true(v):
            d = True
        elif z3.is_false(v):
            d = False
        else:  # model did not decide it: ask
            d = self._check(cond)
            if d:
                self.model = self.solver.model()
            else:
                d = False
        other = z3.Not(cond) if d else cond
        self.stats.decisions += 1
        if self._check(other):
            self.stack.append(self.trail[:self.pos] + [not d])
            self.stats.forks += 1
        self.trail = self.trail[:self.pos] + [d]
        self.pos += 1
        self._assert_decided(cond if d else z3.Not(cond))
        return d

    def concretize(self, expr):
        """return a concrete int for a z3 Int expr; forks over every feasible value."""
        if isinstance(expr, int):
            return expr
        if z3.is_int_value(expr):
            return expr.as_long()
        while True:
            if self.pos < len(self.trail):
                ent = self.trail[self.pos]
                if not isinstance(ent, tuple):
                    raise HarnessError("replay desynchronised: expected concretisation, trail has %r" % (ent,))
                kind, v = ent
                self.pos += 1
                self.model = None
                if kind == "eq":
                    self._assert_decided(expr == v)
                    return v
                self._assert_decided(expr != v)
                continue
            self._new_decision()
            m = self._ensure_model()
            v = m.eval(expr, model_completion=True).as_long()
            self.stats.decisions += 1
            if self._check(expr != v):
                self.stack.append(self.trail[:self.pos] + [("ne", v)])
                self.stats.conc_forks += 1
            self.trail = self.trail[:self.pos] + [("eq", v)]
            self.pos += 1
            self._assert_decided(expr == v)
            return v

    def _new_decision(self):
        if self.pos >= self.max_decisions:
            self.stats.budget_hits += 1
            raise Budget("more than %d decisions on one path" % self.max_decisions)
        if self.deadline is not None and time.time() > self.deadline and self.pos > 0:
            # hand the unfinished path back as a work item
            self.stack.append(self.trail[:self.pos])
            raise Cut()

    # ---- assertions
    def find_model(self, bads):
        """bads: list of z3 Bools / python bools.  Returns a model of pc ∧ ∨bads, or None."""
        zs = []
        for b in bads:
            if isinstance(b, bool):
                if b:
                    zs = [z3.BoolVal(True)]
                    break
                continue
            if z3.is_false(b):
                continue
            zs.append(b)
        if not zs:
            return None
        self.stats.assert_queries += 1
        q = z3.Or(zs) if len(zs) > 1 else zs[0]
        sat = self._check(q)
        if len(self.e3_samples) < self.e3_max and self.stats.assert_queries % self.e3_every == 1:
            try:
                s2 = z3.Solver()
                s2.add(self.solver.assertions())
                s2.add(q)
                self.e3_samples.append((s2.to_smt2(), "sat" if sat else "unsat"))
            except z3.Z3Exception:
                pass
        if sat:
            return self.solver.model()
        return None

    def feasible(self, cond):
        if isinstance(cond, bool):
            return cond
        return self._check(cond)

    def current_model(self):
        self.model = None
        return self._ensure_model()

    # ---- exploration
    def explore(self, fn, prefixes=None, time_slice=None):
        """run fn(self) once per path under every trail in the subtree(s) rooted at
        `prefixes`.  Returns the list of unexplored trails (non-empty only when
        the time slice ran out)."""
        self.stack = [list(p) for p in (prefixes if prefixes is not None else [[]])]
        t_end = None if time_slice is None else time.time() + time_slice
        while self.stack:
            if t_end is not None and time.time() > t_end:
                break
            self.trail = self.stack.pop()
            self.pos = 0
            self.pcs = []
            self.model = None
            self.doms = {}
            self.decided = {}
            self.deadline = t_end
            self.solver.push()
            try:
                fn(self)
                self.stats.paths += 1
            except Cut:
                pass
            except Infeasible:
                pass
            finally:
                self.solver.pop()
        left = self.stack
        self.stack = []
        return left


# ---------------------------------------------------------------------------
# SymBool / SymInt


def zint(x):
    """python int / SymInt / bool -> z3 Int expr (None if not integer-like)"""
    if isinstance(x, SymInt):
        return x.e
    if isinstance(x, bool):
        return z3.IntVal(int(x))
    if isinstance(x, int):
        return z3.IntVal(x)
    return None


def zbool(x):
    if isinstance(x, SymBool):
        return x.e
    return z3.BoolVal(bool(x))


class SymBool:
    __slots__ = ("e", "dom")

    def __init__(self, e, dom=None):
        self.e = e
        self.dom = dom

    def __bool__(self):
        return ENG.branch(self.e, self.dom)

    def __and__(self, o):
        return SymBool(z3.And(self.e, zbool(o)))

    __rand__ = __and__

    def __or__(self, o):
        return SymBool(z3.Or(self.e, zbool(o)))

    __ror__ = __or__

    def __invert__(self):
        if self.dom is not None:
            vid, n, S = self.dom
            return SymBool(z3.Not(self.e), (vid, n, frozenset(range(n)) - S))
        return SymBool(z3.Not(self.e))

    def __eq__(self, o):
        if isinstance(o, (SymBool, bool)):
            return SymBool(self.e == zbool(o))
        return NotImplemented

    def __hash__(self):
        return hash(bool(self))

    def __repr__(self):
        return "SymBool(%s)" % self.e


_CMP = {
    "lt": lambda a, b: a < b, "le": lambda a, b: a <= b, "gt": lambda a, b: a > b,
    "ge": lambda a, b: a >= b, "eq": lambda a, b: a == b, "ne": lambda a, b: a != b,
}
_INF = float("inf")


def mk_int(e):
    """wrap a z3 Int expr; collapse to a python int when it is a literal"""
    if z3.is_int_value(e):
        return e.as_long()
    return SymInt(e)


class SymInt:
    __slots__ = ("e",)

    def __init__(self, e):
        self.e = e

    def _bin(self, o, f):
        z = zint(o)
        if z is None:
            if isinstance(o, float):  # e.g. aromatic bond count 1.5 + order: fork on the integer
                return f(ENG.concretize(self.e), o)
            return NotImplemented
        return mk_int(f(self.e, z))

    def _rbin(self, o, f):
        z = zint(o)
        if z is None:
            if isinstance(o, float):
                return f(o, ENG.concretize(self.e))
            return NotImplemented
        return mk_int(f(z, self.e))

    def _cmp(self, o, op):
        z = zint(o)
        if z is None:
            if isinstance(o, float):
                if o == _INF:
                    return {"lt": True, "le": True, "gt": False, "ge": False, "eq": False, "ne": True}[op]
                if o == -_INF:
                    return {"lt": False, "le": False, "gt": True, "ge": True, "eq": False, "ne": True}[op]
                if o != int(o):  # non-integral float, e.g. bond order 1.5
                    if op == "eq":
                        return False
                    if op == "ne":
                        return True
                    import math
                    fl = math.floor(o)
                    # x < 1.5  <=> x <= 1 ;  x > 1.5 <=> x >= 2
                    if op in ("lt", "le"):
                        return SymBool(self.e <= fl)
                    return SymBool(self.e >= fl + 1)
                z = z3.IntVal(int(o))
            else:
                if op == "eq":
                    return False
                if op == "ne":
                    return True
                return NotImplemented
        r = z3.simplify(_CMP[op](self.e, z))
        if z3.is_true(r):
            return True
        if z3.is_false(r):
            return False
        return SymBool(r)

    def __add__(self, o):
        return self._bin(o, lambda a, b: a + b)

    def __radd__(self, o):
        return self._rbin(o, lambda a, b: a + b)

    def __sub__(self, o):
        return self._bin(o, lambda a, b: a - b)

    def __rsub__(self, o):
        return self._rbin(o, lambda a, b: a - b)

    def __mul__(self, o):
        return self._bin(o, lambda a, b: a * b)

    def __rmul__(self, o):
        return self._rbin(o, lambda a, b: a * b)

    def __floordiv__(self, o):
        # python floor division == z3 integer div only for positive divisors
        if isinstance(o, int) and not isinstance(o, bool) and o > 0:
            return mk_int(self.e / z3.IntVal(o))
        return int(self) // o

    def __mod__(self, o):
        if isinstance(o, int) and not isinstance(o, bool) and o > 0:
            return mk_int(self.e % z3.IntVal(o))
        return int(self) % o

    def __neg__(self):
        return mk_int(-self.e)

    def __pos__(self):
        return self

    def __abs__(self):
        return mk_int(z3.If(self.e >= 0, self.e, -self.e))

    def __lt__(self, o):
        return self._cmp(o, "lt")

    def __le__(self, o):
        return self._cmp(o, "le")

    def __gt__(self, o):
        return self._cmp(o, "gt")

    def __ge__(self, o):
        return self._cmp(o, "ge")

    def __eq__(self, o):
        return self._cmp(o, "eq")

    def __ne__(self, o):
        return self._cmp(o, "ne")

    def __hash__(self):
        return hash(ENG.concretize(self.e))

    def __index__(self):
        return ENG.concretize(self.e)

    def __int__(self):
        return ENG.concretize(self.e)

    def __float__(self):
        return float(ENG.concretize(self.e))

    def __bool__(self):
        return ENG.branch(self.e != 0)

    def __format__(self, spec):
        return format(ENG.concretize(self.e), spec)

    def __str__(self):
        return str(ENG.concretize(self.e))

    def __repr__(self):
        return "SymInt(%s)" % self.e


def sym_min(*a, **kw):
    if len(a) == 1 and not kw:
        a = tuple(a[0])
    if kw or not any(isinstance(x, SymInt) for x in a):
        return min(*a, **kw) if len(a) > 1 else min(a[0], **kw) if kw else min(a)
    r = zint(a[0])
    for x in a[1:]:
        zx = zint(x)
        if zx is None:  # float etc: decide by branching
            r_ = mk_int(r)
            r = zint(x) if (x < r_) else r
            continue
        r = z3.If(zx < r, zx, r)
    return mk_int(z3.simplify(r))


def sym_max(*a, **kw):
    if len(a) == 1 and not kw:
        a = tuple(a[0])
    if kw or not any(isinstance(x, SymInt) for x in a):
        return max(*a, **kw) if len(a) > 1 else max(a[0], **kw) if kw else max(a)
    r = zint(a[0])
    for x in a[1:]:
        zx = zint(x)
        r = z3.If(zx > r, zx, r)
    return mk_int(z3.simplify(r))


def ite_int(pairs, default):
    """pairs: [(z3 cond, int|SymInt)], default int|SymInt -> SymInt/int"""
    e = zint(default)
    for c, v in reversed(pairs):
        e = z3.If(c, zint(v), e)
    return mk_int(z3.simplify(e))


def fresh_int(name, lo=None, hi=None):
    v = z3.Int(name)
    if lo is not None:
        ENG.assume(v >= lo)
    if hi is not None:
        ENG.assume(v <= hi)
    return SymInt(v)


def fresh_bool(name):
    return SymBool(z3.Bool(name))
