"""Evidence writer, known-findings handling, candidate replay."""
import hashlib
import json
import os
import subprocess
import sys
import time

from . import driver

VERIF = os.path.dirname(os.path.dirname(os.path.abspath(__file__)))
PRISTINE_PY = "/venv/bin/python"
KNOWN_FILE = os.path.join(VERIF, "KNOWN_FINDINGS.txt")


def load_props():
    out = {}
    with open(os.path.join(VERIF, "properties.jsonl")) as f:
        for line in f:
            if line.strip():
                p = json.loads(line)
                out[p["id"]] = p
    return out


def anchors_of(prop):
    a = prop.get("anchors", {})
    out = []
    for k in ("state", "mechanism"):
        for it in a.get(k, []) or []:
            w = it.get("where")
            if w:
                out.append(w)
    return out


def load_known():
    known = {}
    if os.path.exists(KNOWN_FILE):
        for line in open(KNOWN_FILE):
            line = line.strip()
            if not line.startswith("known:"):
                continue
            parts = line.split(None, 3)
            # known: property=C01 sig=<sig> text
            try:
                pid = parts[1].split("=", 1)[1]
                sig = parts[2].split("=", 1)[1]
            except IndexError:
                continue
            known[(pid, sig)] = parts[3] if len(parts) > 3 else ""
    return known


def replay_cases(cases, timeout=600):
    """run the concrete oracles on the pristine package in a fresh interpreter"""
    if not cases:
        return []
    os.makedirs(os.path.join(VERIF, "out", "tmp"), exist_ok=True)
    tag = "%d_%d" % (os.getpid(), int(time.time() * 1000) % 10**9)
    fin = os.path.join(VERIF, "out", "tmp", "cases_%s.json" % tag)
    fout = os.path.join(VERIF, "out", "tmp", "verdicts_%s.json" % tag)
    with open(fin, "w") as f:
        json.dump(cases, f)
    env = dict(os.environ)
    env["PYTHONPATH"] = os.environ.get("VERIF_REPO", "/repo") + ":" + VERIF
    env["PYTHONDONTWRITEBYTECODE"] = "1"
    env.pop("SELFIES_VERIF", None)
    try:
        p = subprocess.run([PRISTINE_PY, "-m", "vf.replay", fin, fout], env=env, cwd=VERIF,
                           capture_output=True, text=True, timeout=timeout)
        if p.returncode != 0 or not os.path.exists(fout):
            raise RuntimeError("replayer failed: rc=%s\n%s\n%s" % (p.returncode, p.stdout[-2000:], p.stderr[-4000:]))
        with open(fout) as f:
            return json.load(f)
    finally:
        for x in (fin, fout):
            try:
                os.remove(x)
            except OSError:
                pass


class Report:
    def __init__(self, pid, tier, seed):
        self.pid = pid
        self.tier = tier
        self.seed = seed
        self.t0 = time.time()
        self.parts = []
        self.cases = []        # candidate violations (models) to replay
        self.probe_cases = []  # concrete cases always replayed (reachability / known-finding probes)
        self.errors = []
        self.assumptions = []
        self.functions = set()
        self.cov = set()
        self.extra = {}
        self.level = "model_checking"
        self.validated = 0
        self.e3 = []
        self.obligations = 0
        self.discharged = 0

    def add_part(self, name, res, bounds, claim=None):
        """res: driver.Result"""
        errs = res.col.errors
        drift = bool(errs) and not res.col.cands and all(
            ("harness raised AttributeError" in e or "harness raised TypeError" in e or "harness raised NameError" in e) for e in errs)
        if drift:
            # the harness itself (not the code under test: its exceptions are caught and judged) failed on a private
            # name or signature: a refactoring changed the internals this part drives.  Not a verdict: the part is skipped.
            first = errs[0].split("\n")[0][:240]
            res.col.errors = []
            claim = "skipped: private API this part drives has changed (%s)" % first
            self.skipped = getattr(self, "skipped", 0) + 1
        st = res.stats.as_dict()
        part = {"name": name, "bounds": bounds, "paths": st["paths"], "decisions": st["decisions"],
                "forks": st["forks"] + st["conc_forks"], "queries": st["queries"],
                "assert_queries": st["assert_queries"], "solver_s": round(st["solver_s"], 3),
                "wall_s": round(res.wall, 2), "complete": bool(res.complete and not res.col.errors),
                "counts": dict(res.col.counts), "distinct_nontrivial": len(res.col.keys),
                "samples": res.col.samples[:4]}
        if claim:
            part["claim"] = claim
        if drift:
            part["skipped"] = True
            part["complete"] = True
        self.parts.append(part)
        for c in res.col.cands:
            self.cases.append(c)
        for e in res.col.errors:
            self.errors.append("%s: %s" % (name, e))
        for x in getattr(res.col, "e3", []):
            if len(self.e3) < 60:
                self.e3.append(x)
        self.cov |= res.cov
        return part

    def add_lemma(self, name, ok, detail):
        self.obligations += 1
        if ok:
            self.discharged += 1
        self.parts.append({"name": name, "lemma": True, "discharged": bool(ok), "detail": detail})


def finish(rep, prop, stubs=(), checker_cmd=None):
    """replay candidates, apply known findings, write evidence, print verdict lines.
    Returns the process exit code."""
    known = load_known()
    pid = rep.pid
    try:
        from . import guards
        guards.cross_solver(rep, rep.e3)
    except Exception as ex:  # noqa
        rep.errors.append("cross-solver re-check failed to run: %r" % (ex,))
    verdicts = []
    all_cases = rep.cases + rep.probe_cases
    harness_err = list(rep.errors)
    try:
        verdicts = replay_cases(all_cases)
    except Exception as ex:  # noqa
        harness_err.append("replay failed: %s" % ex)
        verdicts = []
    confirmed = []
    unreproduced = []
    for case, v in zip(all_cases, verdicts):
        if v.get("violation"):
            confirmed.append((case, v))
        elif case in rep.cases and not case.get("advisory"):
            unreproduced.append((case, v))
    rep.validated += len(verdicts)
    # group by signature
    new_viol = []
    known_hits = {}
    for case, v in confirmed:
        sig = v.get("sig", "?")
        if (pid, sig) in known:
            known_hits.setdefault(sig, (case, v))
        else:
            new_viol.append((case, v))
    for case, v in unreproduced:
        harness_err.append("model did not reproduce on the pristine package: %s -> %s"
                           % (json.dumps(case, default=str)[:300], v.get("detail", "")[:200]))
    os.makedirs(os.path.join(VERIF, "out", "replay"), exist_ok=True)
    os.makedirs(os.path.join(VERIF, "evidence"), exist_ok=True)
    lines = []
    for sig, (case, v) in sorted(known_hits.items()):
        lines.append("KNOWN-FINDING: property=%s sig=%s %s [witness: %s]"
                     % (pid, sig, known[(pid, sig)], v.get("detail", "")[:160]))
    seen_sig = set()
    for case, v in new_viol:
        sig = v.get("sig", "?")
        if sig in seen_sig:
            continue
        seen_sig.add(sig)
        h = hashlib.blake2b(json.dumps(case, sort_keys=True, default=str).encode(), digest_size=6).hexdigest()
        path = os.path.join(VERIF, "out", "replay", "%s-%s.json" % (pid, h))
        with open(path, "w") as f:
            json.dump({"case": case, "verdict": v}, f, indent=1, default=str)
        lines.append("VIOLATION property=%s replay=%s" % (pid, path))
        lines.append("  sig=%s %s" % (sig, v.get("detail", "")[:300]))
    # coverage
    anchors = driver.anchor_coverage(rep.cov, anchors_of(prop))
    files = sorted({f for f, _ in rep.cov})
    states = sum(p.get("paths", 0) for p in rep.parts)
    transitions = sum(p.get("decisions", 0) for p in rep.parts)
    queries = sum(p.get("queries", 0) for p in rep.parts)
    solver_s = round(sum(p.get("solver_s", 0) for p in rep.parts), 3)
    nontriv = sum(p.get("distinct_nontrivial", 0) for p in rep.parts)
    samples = []
    for p in rep.parts:
        for s in p.get("samples", [])[:3]:
            samples.append({"part": p["name"], "case": s})
    if not samples:
        samples = [{"part": p["name"], "case": p.get("detail", p.get("bounds"))} for p in rep.parts[:3]]
    complete = all(p.get("complete", True) for p in rep.parts if not p.get("lemma"))
    cov = {
        "states": max(states, 0), "transitions": max(transitions, 0),
        "traces_validated_against_impl": rep.validated,
        "samples": samples[:12],
        "evaluations": max(states, 1), "distinct_nontrivial": nontriv,
        "rule": "one evaluation = one explored path of the real code (a set of inputs sharing all branch decisions); "
                "non-trivial = path reached the anchored mechanism and produced a distinct observable "
                "(output / error class / table relation), counted by hashing that observable",
        "exhaustive": bool(complete and not harness_err),
        "parts": rep.parts,
        "queries": queries, "solver_s": solver_s,
        "functions_encoded_files": files,
        "lines_executed_symbolically": len(rep.cov),
        "anchor_lines_hit": anchors,
        "stubs": list(stubs),
        "known_findings_hit": sorted(known_hits),
        "inconclusive": harness_err[:10],
    }
    if rep.obligations:
        cov.update({"obligations": rep.obligations, "discharged": rep.discharged,
                    "checker_cmd": checker_cmd or ("./check %s --tier %s" % (pid, rep.tier)),
                    "trusted_base": ["z3 4.x/5.x (in-process, z3-solver wheel)", "CPython 3.12",
                                     "pathsym proxies (vf/engine.py, vf/symstr.py)", "import-hook AST rewrite of str.format/str.join"]})
    cov.update(rep.extra)
    ev = {"property_id": pid, "tier": rep.tier, "seed": rep.seed, "level": rep.level,
          "coverage": cov, "assumptions": rep.assumptions, "wall_s": round(time.time() - rep.t0, 2),
          "violations": len(seen_sig)}
    with open(os.path.join(VERIF, "evidence", "%s.json" % pid), "w") as f:
        json.dump(ev, f, indent=1, default=str)
    for ln in lines:
        print(ln)
    if seen_sig:
        print("RESULT %s: %d unlisted violation(s)" % (pid, len(seen_sig)))
        return 1
    if harness_err:
        for e in harness_err[:10]:
            print("HARNESS-ERROR %s: %s" % (pid, e[:600]))
        return 2
    if not complete:
        print("RESULT %s: held on everything explored; some levels not completed (see evidence: parts[].complete)" % pid)
    else:
        print("RESULT %s: held within the stated bounds (%d paths, %d queries, %.1fs solver)"
              % (pid, states, queries, solver_s))
    return 0
