"""Encoder-side harness helpers (models M-CHR / M-SMI)."""
import warnings

from . import engine, symstr


def run_encoder(ctx, s, strict=True, attribute=False):
    EncoderError = ctx.exc.EncoderError
    try:
        out = ctx.enc.encoder(s, strict=strict, attribute=attribute)
        return ("ok", out)
    except EncoderError as ex:
        return ("EncoderError", ex)
    except Exception as ex:  # noqa
        if symstr.proxy_fault(ex) and not isinstance(s, str):
            symstr.PROXY_FALLBACKS[0] += 1
            return run_encoder(ctx, symstr.pin(s), strict=strict, attribute=attribute)
        return ("exc", ex)


SMI_CHARS = ["C", "N", "O", "F", "c", "n", "o", "s", "l", "B", "r", "[", "]", "(", ")", "1", "2", "%", "0", ".",
             "=", "#", ":", "/", "\\", "-", "+", "@", "H", "x", "*", "²"]
SMI_TOKENS = ["C", "N", "O", "F", "Cl", "c", "n", "o", "s", "[nH]", "[n+]", "[C@H]", "[O-]", "[Fe+2]", "[CH3]",
              "=C", "#N", "/C", "\\C", ":c", ":C", "(", ")", "1", "2", "=1", "/1", "%10", ".", "=", "%1", "[", "]"]
SMI_CHARS_Q = ["C", "N", "O", "c", "n", "o", "l", "[", "]", "(", ")", "1", "2", "%", "0", ".", "=", "#", ":", "/", "\\", "+", "H", "²"]
