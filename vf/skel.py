"""Molecule skeletons by construction (model M-SKEL): the solver chooses the spanning tree in writing order (the parent
of atom i is atom i-1 or one of its ancestors), which of the remaining atom pairs are ring bonds, and the spelling of
every atom and bond from the given alternatives.  Every SMILES of n atoms over those spellings that a writer can produce
with unique ring labels (digits before branches) is one path.  Choices are concretised (they shape the string)."""
from . import engine
from .engine import fresh_int


def _pick(name, alts):
    alts = list(alts)
    if len(alts) == 1:
        return alts[0]
    return alts[int(fresh_int(name, 0, len(alts) - 1))]


def skeleton(n, atoms=("C",), tree_bonds=("",), ring_bonds=("",), max_deg=4, tag="k", ring_bond_sides=("open",), special=None):
    """special: {degree: [spellings]} - exactly one atom (chosen by the solver among the atoms whose degree is listed) is
    written with one of the spellings listed for its degree (e.g. a chiral centre)"""
    parent, stack = [None], [0]
    deg = [0] * n
    for i in range(1, n):
        cands = [k for k in range(len(stack)) if deg[stack[k]] < max_deg]
        if not cands:
            raise engine.Infeasible()
        k = cands[int(fresh_int("%sp%d" % (tag, i), 0, len(cands) - 1))] if len(cands) > 1 else cands[0]
        parent.append(stack[k])
        deg[stack[k]] += 1
        deg[i] += 1
        stack = stack[:k + 1] + [i]
    tree = {(parent[i], i) for i in range(1, n)}
    rings = []
    for i in range(n):
        for j in range(i + 1, n):
            if (i, j) in tree or deg[i] >= max_deg or deg[j] >= max_deg:
                continue
            if bool(engine.fresh_bool("%sr_%d_%d" % (tag, i, j))):
                rings.append((i, j))
                deg[i] += 1
                deg[j] += 1
    children = {i: [] for i in range(n)}
    for i in range(1, n):
        children[parent[i]].append(i)
    lab = {e: k + 1 for k, e in enumerate(sorted(rings, key=lambda e: (e[1], e[0])))}
    text = [_pick("%sa%d" % (tag, i), atoms) for i in range(n)]
    if special:
        where = [i for i in range(n) if deg[i] in special]
        if not where:
            raise engine.Infeasible()
        w = _pick("%sw" % tag, where)
        text[w] = _pick("%sx" % tag, special[deg[w]])
    tb = [None] + [_pick("%sb%d" % (tag, i), tree_bonds) for i in range(1, n)]
    rb = {e: _pick("%sq_%d_%d" % ((tag,) + e), ring_bonds) for e in rings}
    # where the ring bond's symbol is written: on the opening label, the closing label, or both
    side = {e: (_pick("%ss_%d_%d" % ((tag,) + e), ring_bond_sides) if rb[e] else "open") for e in rings}

    def atom(u):
        t = text[u]
        for e in sorted(rings):
            if u in e:
                d = str(lab[e]) if lab[e] < 10 else "%%%d" % lab[e]
                here = side[e] == "both" or (side[e] == "open") == (u == e[0])
                t += (rb[e] if here else "") + d
        ch = children[u]
        for c in ch[:-1]:
            t += "(" + tb[c] + atom(c) + ")"
        if ch:
            t += tb[ch[-1]] + atom(ch[-1])
        return t
    return atom(0)


def bounds(n, atoms=("C",), tree_bonds=("",), ring_bonds=("",), max_deg=4, ring_bond_sides=("open",)):
    return {"atoms": n, "atom_spellings": list(atoms), "tree_bond_symbols": list(tree_bonds), "ring_bond_symbols": list(ring_bonds),
            "ring_bond_symbol_written_on": list(ring_bond_sides),
            "max_degree": max_deg, "spanning_tree": "every writing order", "ring_bonds": "every subset of the remaining pairs"}
