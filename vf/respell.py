"""Write alternative SMILES spellings (atom orders) of a molecule read by O-READ."""
from .oread import read_smiles


def spell(mol, start=0, flip=False, rot=0):
    n = len(mol.atoms)
    adj = {i: [] for i in range(n)}
    for (a, b), br in mol.bonds.items():
        adj[a].append(b)
        adj[b].append(a)
    for i in adj:
        adj[i].sort(reverse=flip)
        if adj[i] and rot:
            k = rot % len(adj[i])
            adj[i] = adj[i][k:] + adj[i][:k]

    def bsym(a, b):
        br = mol.bonds[(min(a, b), max(a, b))]
        o = br.order
        both = mol.atoms[a].aromatic and mol.atoms[b].aromatic
        if o == 1.5:
            return "" if both else ":"
        if o == 1:
            return "-" if both else ""
        return {2: "=", 3: "#"}[o]

    seen = set()
    order = []
    parent = {}
    ring_edges = []
    # iterative DFS to find tree / ring edges over all fragments
    out_parts = []
    starts = [start] + [i for i in range(n) if i != start]
    closures = {}  # atom -> list of (label, bond symbol)
    label = [0]
    tree_children = {i: [] for i in range(n)}

    def dfs(root):
        stack = [(root, None)]
        while stack:
            v, p = stack.pop()
            if v in seen:
                continue
            seen.add(v)
            parent[v] = p
            if p is not None:
                tree_children[p].append(v)
            for w in reversed(adj[v]):
                if w not in seen:
                    stack.append((w, v))

    comps = []
    for s0 in starts:
        if s0 not in seen:
            dfs(s0)
            comps.append(s0)
    tree = {(min(v, p), max(v, p)) for v, p in parent.items() if p is not None}
    for k in mol.bonds:
        if k not in tree:
            label[0] += 1
            lab = str(label[0]) if label[0] < 10 else "%%%d" % label[0]
            a, b = k
            closures.setdefault(a, []).append((lab, bsym(a, b)))
            closures.setdefault(b, []).append((lab, ""))

    def write(v):
        parts = [mol.atoms[v].text]
        for lab, bs in closures.get(v, []):
            parts.append(bs + lab)
        ch = tree_children[v]
        for i, c in enumerate(ch):
            sub = bsym(v, c) + write(c)
            parts.append(sub if i == len(ch) - 1 else "(" + sub + ")")
        return "".join(parts)

    import sys
    sys.setrecursionlimit(max(sys.getrecursionlimit(), 10000))
    return ".".join(write(c) for c in comps)
