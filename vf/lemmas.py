"""Step lemmas on the real grammar functions over unbounded integers (M-PRE)."""
import z3

from . import driver, engine
from .engine import fresh_int, zint, SymInt, mk_int
from .oread import read_smiles


def _zmin(*xs):
    r = xs[0]
    for x in xs[1:]:
        r = z3.If(x < r, x, r)
    return r


def _api_drift(res):
    """the step harnesses reach into private functions and attributes; if those were renamed or re-shaped by a
    refactoring, the harness fails with AttributeError/TypeError/NameError before it can judge anything.  That is
    not a verdict about the property: the lemma is then reported as skipped (the public-API explorations still run)."""
    errs = res.col.errors
    return bool(errs) and all(("harness raised AttributeError" in e or "harness raised TypeError" in e or
                               "harness raised NameError" in e or "harness raised KeyError" in e) for e in errs)


def _guarded(fn):
    """a step harness that cannot even be set up (a private name is gone) is skipped, like one that fails on its paths"""
    import functools

    @functools.wraps(fn)
    def wrapper(ctx, rep, *a, **kw):
        try:
            return fn(ctx, rep, *a, **kw)
        except (AttributeError, TypeError, NameError, KeyError) as ex:
            rep.parts.append({"name": "step harness %s" % fn.__name__, "lemma": True, "skipped": True, "complete": True, "discharged": False,
                              "claim": "skipped: the private API this step harness drives has changed (%r)" % (ex,)})
            rep.skipped = getattr(rep, "skipped", 0) + 1
            return None
    return wrapper


def _lemma(rep, name, res, bounds):
    if _api_drift(res) and not res.col.cands:
        first = res.col.errors[0].split("\n")[0][:200]
        res.col.errors = []
        part = rep.add_part(name, res, bounds)
        part.update({"lemma": True, "skipped": True, "complete": True, "discharged": False,
                     "claim": "skipped: the private API this step harness drives has changed (%s)" % first})
        return False
    part = rep.add_part(name, res, bounds)
    part["lemma"] = True
    ok = part["complete"] and not res.col.cands
    rep.obligations += 1
    if ok:
        rep.discharged += 1
    part["discharged"] = bool(ok)
    return ok


@_guarded
def state_lemmas(ctx, rep, equalities):
    gr = ctx.gr

    def none_or(v):
        return None if v is None else zint(v)

    def path_atom(eng, col):
        ctx.reset()
        bo = fresh_int("bo", 1, 3)
        cap = fresh_int("cap", 0, None)
        st = fresh_int("state", 0, None)
        order, nxt = gr.next_atom_state(bo, cap, st)
        o = zint(order)
        bads = [o < 0, o > bo.e, o > cap.e, z3.And(st.e > 0, o > st.e), z3.And(st.e == 0, o != 0)]
        if nxt is None:
            bads.append(cap.e - o != 0)
        else:
            bads += [zint(nxt) != cap.e - o, zint(nxt) <= 0]
        if equalities:
            bads.append(z3.And(st.e > 0, o != _zmin(bo.e, st.e, cap.e)))
        col.nontrivial(("atom", nxt is None))
        col.sample({"fn": "next_atom_state", "next_state_is_None": nxt is None})
        m = eng.find_model(bads)
        if m is not None:
            col.candidate({"prop": rep.pid, "kind": "state_fn", "fn": "next_atom_state",
                           "args": [m.eval(x.e, model_completion=True).as_long() for x in (bo, cap, st)]})

    def path_branch(eng, col):
        ctx.reset()
        bt = fresh_int("bt", 1, 3)
        st = fresh_int("state", 2, None)
        binit, nxt = gr.next_branch_state(bt, st)
        b, n_ = zint(binit), none_or(nxt)
        bads = [b < 1, b > bt.e]
        if n_ is None:
            bads.append(True)  # documented: a branch always leaves at least one bond for the main chain
        else:
            bads += [n_ < 1, b + n_ != st.e]
        if equalities:
            bads.append(b != _zmin(st.e - 1, bt.e))
        col.nontrivial(("branch", nxt is None))
        col.sample({"fn": "next_branch_state"})
        m = eng.find_model(bads)
        if m is not None:
            col.candidate({"prop": rep.pid, "kind": "state_fn", "fn": "next_branch_state",
                           "args": [m.eval(x.e, model_completion=True).as_long() for x in (bt, st)]})

    def path_ring(eng, col):
        ctx.reset()
        rt = fresh_int("rt", 1, 3)
        st = fresh_int("state", 1, None)
        order, nxt = gr.next_ring_state(rt, st)
        o = zint(order)
        bads = [o < 1, o > rt.e, o > st.e]
        if nxt is None:
            bads.append(st.e - o != 0)
        else:
            bads += [zint(nxt) != st.e - o, zint(nxt) <= 0]
        if equalities:
            bads.append(o != _zmin(rt.e, st.e))
        col.nontrivial(("ring", nxt is None))
        col.sample({"fn": "next_ring_state", "next_state_is_None": nxt is None})
        m = eng.find_model(bads)
        if m is not None:
            col.candidate({"prop": rep.pid, "kind": "state_fn", "fn": "next_ring_state",
                           "args": [m.eval(x.e, model_completion=True).as_long() for x in (rt, st)]})

    for nm, fn in (("next_atom_state", path_atom), ("next_branch_state", path_branch), ("next_ring_state", path_ring)):
        res = driver.explore_parallel(fn, 60, nworkers=1)
        _lemma(rep, "lemma %s (%s)" % (nm, "equalities with the documented formulas" if equalities else "bounds"),
               res, {"integers": "unbounded (state, capacity); requested order / type in 1..3"})


@_guarded
def ring_step(ctx, rep):
    """one iteration of _form_rings_bilocally from an arbitrary pre-state"""
    mg, dec, bc = ctx.mg, ctx.dec, ctx.bc

    def path(eng, col):
        capA = fresh_int("capA", 0, None)
        capB = fresh_int("capB", 0, None)
        cntA = fresh_int("cntA", 0, None)
        cntB = fresh_int("cntB", 0, None)
        rord = fresh_int("rord", 1, 3)
        eord = fresh_int("eord", 1, 3)
        shape = int(fresh_int("shape", 0, 3))  # 0 no bond, 1 chain bond, 2 ring bond, 3 ring to self
        eng.assume(z3.And(cntA.e <= capA.e, cntB.e <= capB.e))
        if shape in (1, 2):
            eng.assume(z3.And(cntA.e >= eord.e, cntB.e >= eord.e))
        ctx.reset({"C": capA, "N": capB, "?": 8})
        mol = mg.MolecularGraph()
        a = mol.add_atom(mg.Atom("C", False), True)
        x = mol.add_atom(mg.Atom("C", False))
        b = mol.add_atom(mg.Atom("N", False))
        if shape == 1:
            mol.add_bond(src=0, dst=2, order=eord, stereo=None)
        elif shape == 2:
            mol.add_ring_bond(a=0, b=2, order=eord, a_stereo=None, b_stereo=None)
        mol._bond_counts[0] = cntA
        mol._bond_counts[2] = cntB
        n_bond_objs0 = len(mol._bond_dict)
        adj0 = [len(l) for l in mol._adj_list]
        if shape == 3:
            dec._form_rings_bilocally(mol, [(a, a, (rord, (None, None)))])
        else:
            dec._form_rings_bilocally(mol, [(a, b, (rord, (None, None)))])
        ca, cb = zint(mol.get_bond_count(0)), zint(mol.get_bond_count(2))
        delta = ca - cntA.e
        bads = [ca > capA.e, cb > capB.e, delta < 0, (cb - cntB.e) != delta]
        has = mol.has_bond(0, 2)
        if shape == 3:
            bads += [delta != 0, len(mol._bond_dict) != n_bond_objs0]
        elif has:
            o = zint(mol.get_dirbond(0, 2).order)
            old = eord.e if shape in (1, 2) else z3.IntVal(0)
            bads += [o < 1, o > 3, o - old != delta]
            nobj = len(mol._bond_dict)
            bads.append(nobj not in (1, 2))
            n02 = len([d for d in mol._adj_list[0] if d is not None and d.dst == 2])
            n20 = len([d for d in mol._adj_list[2] if d is not None and d.dst == 0])
            bads.append(n02 != 1 or n20 > 1)
            if (2, 0) in mol._bond_dict:
                bads.append(zint(mol._bond_dict[(2, 0)].order) != o)
        else:
            bads += [delta != 0]
        col.nontrivial((shape, has))
        col.sample({"pre_state": ["no bond", "chain bond", "ring bond", "ring to self"][shape], "bond_after": bool(has)})
        m = eng.find_model(bads)
        if m is not None:
            vals = {k: m.eval(v.e, model_completion=True).as_long()
                    for k, v in dict(capA=capA, capB=capB, cntA=cntA, cntB=cntB, rord=rord, eord=eord).items()}
            vals["shape"] = shape
            col.candidate({"prop": rep.pid, "kind": "ring_step", "pre": vals})

    res = driver.explore_parallel(path, 60, nworkers=1)
    _lemma(rep, "lemma _form_rings_bilocally: one ring candidate on an arbitrary pre-state", res,
           {"capacities": "unbounded >= 0", "bond counts": "0 <= count <= capacity", "existing bond": "none / chain / ring of order 1..3 / ring to self",
            "ring order": "1..3"})


class _OffsetDict(dict):
    """ring_log whose length is offset by a pre-filled number of closed rings"""
    def __init__(self, off):
        dict.__init__(self)
        self.off = off

    def __len__(self):
        return dict.__len__(self) + self.off


@_guarded
def ring_label_step(ctx, rep, nmax, witness):
    """ring-label allocation in the SMILES writer with n earlier rings in the log"""
    mg, su = ctx.mg, ctx.su

    def path(eng, col):
        ctx.reset()
        n = int(fresh_int("n_rings_before", 0, nmax))
        mol = mg.MolecularGraph()
        for i in range(3):
            mol.add_atom(mg.Atom("C", False), i == 0)
        mol.add_bond(0, 1, 1, None)
        mol.add_bond(1, 2, 1, None)
        mol.add_ring_bond(a=0, b=2, order=1, a_stereo=None, b_stereo=None, a_pos=0, b_pos=0)
        derived = []
        su._derive_smiles_from_fragment(derived, mol, 0, _OffsetDict(n), [], 0)
        out = "".join(str(x) for x in derived)
        m = read_smiles(out)
        col.nontrivial(len(str(n + 1)))
        if n in (0, 8, 9, 98, 99, nmax):
            col.sample({"rings_before": n, "written": out})
        if m.faults or m.ring_bonds != 1:
            col.candidate(witness(n))

    res = driver.explore_parallel(path, 120, nworkers=1)
    if _api_drift(res) and not res.col.cands:
        res.col.errors = []
        rep.add_part("step: ring-label allocation (skipped: private API changed)", res, {}).update({"skipped": True, "complete": True})
        return
    part = rep.add_part("step: ring-label allocation in _derive_smiles_from_fragment with n earlier rings", res,
                        {"n": "0..%d (concretised: one path per n)" % nmax})
    part["note"] = "labels above 99 are reported through the public decoder witness (n+1 three-membered rings)"


@_guarded
def writer_graphs(ctx, rep, natoms=(3, 3), max_rings=3, time_limit=60):
    """mol_to_smiles on molecular graphs built through the real MolecularGraph API: two chain
    fragments, ring bonds (including ring bonds across fragments, which the decoder can produce)
    chosen by the solver.  The written SMILES must read back (O-READ) to exactly these bonds."""
    mg, su = ctx.mg, ctx.su
    n1, n2 = natoms
    n = n1 + n2

    def path(eng, col):
        ctx.reset()
        mol = mg.MolecularGraph()
        for i in range(n):
            mol.add_atom(mg.Atom("C", False), i in (0, n1))
        chain = set()
        for i in range(n):
            if i + 1 < n and i + 1 != n1:
                mol.add_bond(i, i + 1, 1, None)
                chain.add((i, i + 1))
        rings = []
        rings_made = [0] * n
        # ring candidates in order of the closing atom (as the decoder's queue would hold them)
        for r in range(n):
            for l in range(r):
                if (l, r) in chain or len(rings) >= max_rings:
                    continue
                if bool(engine.fresh_bool("ring_%d_%d" % (l, r))):
                    mol.add_ring_bond(a=l, a_stereo=None, a_pos=rings_made[l], b=r, b_stereo=None, b_pos=rings_made[r], order=1)
                    rings_made[l] += 1
                    rings_made[r] += 1
                    rings.append((l, r))
        out = str(su.mol_to_smiles(mol))
        m = read_smiles(out)
        want = chain | set(rings)
        col.nontrivial(tuple(rings))
        if len(rings) >= 2:
            col.sample({"ring_bonds": rings, "written": out})
        if m.faults or set(m.bonds) != want or len(m.atoms) != n:
            col.candidate({"prop": rep.pid, "kind": "writer_graph", "natoms": [n1, n2], "rings": rings})

    res = driver.explore_parallel(path, time_limit)
    if _api_drift(res) and not res.col.cands:
        res.col.errors = []
        rep.add_part("step: mol_to_smiles on graphs (skipped: private API changed)", res, {}).update({"skipped": True, "complete": True})
        return None
    part = rep.add_part("step: mol_to_smiles on two chain fragments of %d+%d atoms with up to %d solver-chosen ring bonds (also across fragments)"
                        % (n1, n2, max_rings), res, {"atoms": [n1, n2], "ring_bonds": "any set of at most %d non-chain pairs" % max_rings})
    return part


@_guarded
def index_read_lemma(ctx, rep):
    """decoder-side index reading (_read_index_from_selfies) with 1-3 requested and 0-3 available symbols"""
    from . import docs
    from .symstr import make_tokens, model_value
    dec = ctx.dec
    ALPHA = docs.DOC_INDEX + ["[F]", "[=O]", "[Branch3]", "[epsilon]"]

    def digit(tok):
        if tok is None:
            return z3.IntVal(0)
        e = z3.IntVal(0)
        for i, v in enumerate(tok.vals):
            d = docs.DOC_INDEX.index(v) if v in docs.DOC_INDEX else 0
            if d:
                e = z3.If(tok.e == i, z3.IntVal(d), e)
        return e

    def path(eng, col):
        ctx.reset()
        L = int(fresh_int("L", 1, 3))
        avail = int(fresh_int("avail", 0, 3))
        toks = make_tokens("i", min(L, avail), ALPHA)
        q = dec._read_index_from_selfies(iter(list(enumerate(toks))), n_symbols=L)
        if isinstance(q, tuple):
            q = q[0]
        want = z3.IntVal(0)
        for j in range(L):
            want = want * 16 + digit(toks[j] if j < len(toks) else None)
        col.nontrivial((L, avail))
        col.sample({"symbols_requested": L, "symbols_available": avail})
        m = eng.find_model([zint(q) != want])
        if m is not None:
            col.candidate({"prop": rep.pid, "kind": "index", "symbols": [model_value(m, t) for t in toks] + [None] * (L - len(toks))})

    res = driver.explore_parallel(path, 60, nworkers=1)
    _lemma(rep, "lemma index reading: 1-3 requested symbols, 0-3 available (missing = digit 0), each free over 20 symbols", res,
           {"alphabet": ALPHA, "L": "1..3", "available": "0..3"})


@_guarded
def derive_step(ctx, rep):
    """one iteration of _derive_mol_from_symbols from an arbitrary loop-head state, recursion replaced by its contract.

    Loop-head state = (state, prev_atom) with 0 <= state <= capacity(prev) - count(prev) (or no atom yet and state 0),
    which is also a function entry with init_state = state, root_atom = prev.  The real function is called with
    max_derive = 1 on one free symbol (+ free index symbols).  The recursive call is replaced by the function's own
    contract: pre `1 <= b <= free(root)` (asserted), post `root gains 0 <= x <= b bonds, returns n >= 0`.
    Asserted on return: every atom's count <= capacity; the invariant holds again for (next state, new prev atom);
    while the chain is still on the root, bonds spent on the root + next state <= init_state, else bonds spent <= init_state
    (this is the contract, so the stub is justified by the same lemma: induction on iterations and on nesting depth)."""
    import sys
    from .symstr import make_tokens
    mg, dec = ctx.mg, ctx.dec
    ALPHA = ["[C]", "[=C]", "[#C]", "[N]", "[=N]", "[#N]", "[NH1]", "[=O+1]", "[CH4]",
             "[Branch1]", "[=Branch1]", "[#Branch1]", "[Branch2]", "[=Branch3]",
             "[Ring1]", "[=Ring1]", "[#Ring1]", "[Ring2]", "[-/Ring1]", "[epsilon]"]
    orig = dec._derive_mol_from_symbols

    def path(eng, col):
        caps = {k: fresh_int("cap_" + k.replace("+", "p").replace("?", "q"), 0, None) for k in ("C", "N", "O+1", "?")}
        ctx.reset(caps)
        has_root = bool(engine.fresh_bool("has_root"))
        mol = mg.MolecularGraph()
        rings = []
        if has_root:
            # two earlier atoms so that ring symbols have somewhere to point; the second is the loop-head atom
            a0 = mol.add_atom(mg.Atom("N", False), True)
            root = mol.add_atom(mg.Atom("C", False))
            cnt = fresh_int("cnt_root", 0, None)
            st = fresh_int("state", 1, None)
            eng.assume(cnt.e + st.e <= caps["C"].e)
            mol._bond_counts[1] = cnt
            mol._bond_counts[0] = fresh_int("cnt_other", 0, None)
            eng.assume(zint(mol._bond_counts[0]) <= caps["N"].e)
        else:
            root, cnt, st = None, 0, 0
        toks = make_tokens("t", 4, ALPHA)
        captured = {}
        pre_bads = []

        def stub(*args, **kw):
            import inspect
            ba = inspect.signature(orig).bind(*args, **kw).arguments
            mol_, init_state, root_atom = ba["mol"], ba["init_state"], ba["root_atom"]
            free = root_atom.bonding_capacity - mol_.get_bond_count(root_atom.index)
            pre_bads.append(z3.Or(zint(init_state) < 1, zint(init_state) > zint(free)))
            x = fresh_int("br_x%d" % len(pre_bads), 0, None)
            eng.assume(x.e <= zint(init_state))
            mol_._bond_counts[root_atom.index] = mol_._bond_counts[root_atom.index] + x
            return fresh_int("br_n%d" % len(pre_bads), 0, None)

        def tracer(frame, event, arg):
            if frame.f_code is orig.__code__:
                def local(fr, ev, a):
                    if ev == "return":
                        captured.update(fr.f_locals)
                    return local
                return local
            return None

        dec._derive_mol_from_symbols = stub
        old = sys.gettrace()
        sys.settrace(tracer)
        try:
            try:
                orig(enumerate(iter(toks)), mol, "x", 1, st, root, rings, None, 0)
                err = None
            except ctx.exc.DecoderError as ex:
                err = ex
            except Exception as ex:  # noqa: anything else escaping one iteration is reported with the pre-state
                err = ex
                from .symstr import model_value, proxy_fault
                if proxy_fault(ex):
                    raise   # raised by a proxy, not by the code under test: this harness cannot drive the function as it is now (-> skipped)
                from .ctx import table_model
                m = eng.current_model()
                col.candidate({"prop": rep.pid, "kind": "derive_step", "table": table_model(m, caps),
                               "has_root": has_root, "cnt_root": model_value(m, cnt), "state": model_value(m, st),
                               "cnt_other": model_value(m, mol._bond_counts[0]) if has_root else 0,
                               "symbols": [model_value(m, t) for t in toks]})
        finally:
            sys.settrace(old)
            dec._derive_mol_from_symbols = orig
        if err is not None:
            col.count("DecoderError")
            col.nontrivial(("err",))
            return
        nxt = captured.get("next_state")
        state_f = None if nxt is None else captured.get("state")
        prev = captured.get("prev_atom")
        bads = list(pre_bads)
        for a in mol.get_atoms():
            bads.append(zint(mol.get_bond_count(a.index)) > zint(a.bonding_capacity))
        if state_f is not None:
            if prev is None or prev.index is None:
                bads.append(zint(state_f) != 0)
            else:
                free = zint(prev.bonding_capacity) - zint(mol.get_bond_count(prev.index))
                bads += [zint(state_f) < 0, zint(state_f) > free]
        if has_root:
            spent = zint(mol.get_bond_count(1)) - cnt.e
            if prev is root and state_f is not None:
                bads.append(spent + zint(state_f) > st.e)
            else:
                bads.append(spent > st.e)
            bads.append(spent < 0)
        col.count("ok")
        col.nontrivial((has_root, len(mol.get_atoms()), len(rings), len(pre_bads), state_f is None))
        col.sample({"has_root": has_root, "atoms_after": len(mol.get_atoms()), "ring_candidates": len(rings),
                    "recursive_calls": len(pre_bads), "terminated": state_f is None})
        m = eng.find_model(bads)
        if m is not None:
            from .symstr import model_value
            from .ctx import table_model
            col.candidate({"prop": rep.pid, "kind": "derive_step", "table": table_model(m, caps),
                           "has_root": has_root, "cnt_root": model_value(m, cnt), "state": model_value(m, st),
                           "cnt_other": model_value(m, mol._bond_counts[0]) if has_root else 0,
                           "symbols": [model_value(m, t) for t in toks]})

    res = driver.explore_parallel(path, 90, nworkers=1)
    _lemma(rep, "lemma: one iteration of _derive_mol_from_symbols from an arbitrary loop-head state (recursion replaced by its contract)",
           res, {"capacities, counts, state": "unbounded integers with state <= capacity(prev) - count(prev)",
                 "symbol": "free over %d symbols, followed by 3 free symbols (indices)" % len(ALPHA), "alphabet": ALPHA})


@_guarded
def ring_order_step(ctx, rep):
    """_form_rings_bilocally on a 4-atom chain with a branch and 2-3 ring candidates chosen by the solver (adjacent pairs
    merge into the chain bond): afterwards every atom's out-bonds must be [ring bonds in formation order] + [chain and
    branch bonds in derivation order] - the order that fixes the written neighbour sequence (C02, C04)."""
    mg, dec = ctx.mg, ctx.dec
    PAIRS = [(0, 1), (0, 2), (0, 3), (1, 2), (1, 3), (2, 3), (0, 4), (1, 4), (3, 4)]

    def path(eng, col):
        ctx.reset({"C": 9, "?": 9})
        mol = mg.MolecularGraph()
        atoms = [mol.add_atom(mg.Atom("C", False), i == 0) for i in range(5)]
        # chain 0-1-2-3 and a branch atom 4 on atom 1 (derived before atom 2)
        mol.add_bond(0, 1, 1, None)
        mol.add_bond(1, 4, 1, None)
        mol.add_bond(1, 2, 1, None)
        mol.add_bond(2, 3, 1, None)
        chain = {(0, 1), (1, 4), (1, 2), (2, 3)}
        k = int(fresh_int("n_rings", 1, 3))
        cands = []
        for j in range(k):
            pi = int(fresh_int("pair%d" % j, 0, len(PAIRS) - 1))
            cands.append(PAIRS[pi])
        rings = [(atoms[l], atoms[r], (1, (None, None))) for l, r in cands]
        before = [[(b.src, b.dst) for b in mol.get_out_dirbonds(i)] for i in range(5)]
        dec._form_rings_bilocally(mol, rings)
        made = []
        for l, r in cands:
            if (l, r) not in chain and (l, r) not in made:
                made.append((l, r))
        bad = False
        for i in range(5):
            want = [(i, r if l == i else l) for (l, r) in made if i in (l, r)] + before[i]
            got = [(b.src, b.dst) for b in mol.get_out_dirbonds(i)]
            if got != want:
                bad = True
        col.nontrivial(tuple(cands))
        col.sample({"candidates": cands, "ring_bonds_made": made})
        if bad:
            col.candidate({"prop": rep.pid, "kind": "ring_order", "candidates": [list(c) for c in cands]})

    res = driver.explore_parallel(path, 60, nworkers=4)
    _lemma(rep, "lemma ring placement: ring bonds come first in formation order, candidates on bonded pairs only raise the order", res,
           {"graph": "chain of 4 atoms + one branch atom", "candidates": "1-3 pairs chosen by the solver from %r" % (PAIRS,)})


def crosshair_state_lemmas(ctx, rep, timeout=20):
    """E2 cross-engine: CrossHair on the same three state functions over unbounded ints"""
    import os
    from . import xhair
    src = os.path.join(os.path.dirname(os.path.abspath(__file__)), "xh", "c01_contracts.py")
    try:
        res = xhair.run_contracts(src, per_condition_timeout=timeout)
    except Exception as ex:  # noqa
        rep.parts.append({"name": "E2 CrossHair state functions", "lemma": True, "discharged": False, "complete": True,
                          "status": "inconclusive", "detail": "could not run: %r" % (ex,)})
        return
    for fn, r in sorted(res.items()):
        rep.obligations += 1
        okk = r["status"] == "confirmed"
        if okk:
            rep.discharged += 1
        rep.parts.append({"name": "E2 CrossHair %s (unbounded ints)" % fn, "lemma": True, "discharged": okk, "status": r["status"],
                          "wall_s": r.get("wall_s"), "detail": r["message"][-160:], "complete": True})
        if r["status"] == "refuted" and r.get("args"):
            a = r["args"]
            fname = {"check_atom_state": "next_atom_state", "check_branch_state": "next_branch_state", "check_ring_state": "next_ring_state"}[fn]
            rep.cases.append({"prop": rep.pid, "kind": "state_fn", "fn": fname, "args": [int(x) for x in a]})
