"""Decoder-side harness helpers (model M-TOK x M-TAB)."""
import warnings

import z3

from . import engine, symstr
from .ctx import table_model
from .engine import SymInt, zint
from .oread import read_smiles, table_key, explicit_valence
from .symstr import TokStr, make_tokens, model_value

A_CORE = ["[C]", "[=C]", "[#C]",
          "[Branch1]", "[=Branch1]", "[#Branch1]", "[Branch2]",
          "[Ring1]", "[=Ring1]", "[#Ring1]", "[Ring2]", "[epsilon]"]
A_DEC = A_CORE + ["[N]", "[=N]", "[#N]", "[NH1]", "[=O+1]"]
KEYS_CORE = ["C", "?"]
KEYS_DEC = ["C", "N", "O+1", "?"]


FORCE_PLAIN = False   # set by probe_mtok when the decoder under test does not treat token lists like strings

PROBES = ["[C][=C][#N]", "[C][nop][O].[N][F]", "[C][Branch1][C][O][N].[C]", "[nop].[C][nop]", "[C][C][C][Ring1][Ring1].[O][nop][Ring1]",
          "[Cexpl][Branch1_2][C][=Oexpl].[Na+expl]", "[C].[C][N+expl][Branch1_1][C][C][C]", ".[C]", "[C].", "[C]..[C]", "",
          "[C][epsilon][C].[Ring1][C]", "[S][=Branch1][C][=O][=Branch1][C][=O][O-1].[Na+1]", "[C][nop][Ring1][nop][C][C]",
          "[Foo].[C]", "[C].[Foo]", "[C][Expl=Ring1][C].[C]"]


def probe_mtok(ctx):
    """pre-flight fidelity probe of the M-TOK input model: the instrumented decoder must return the same thing for a
    token-list input (TokStr of plain symbols) and for the plain string, with every flag combination.  If it does not
    (the decoder handles its input in a way the token-list model does not imitate), all decoder calls of this run
    pin the symbols and use plain strings instead (enumeration over the alphabet: slower, same meaning)."""
    global FORCE_PLAIN
    import re
    FORCE_PLAIN = False
    for x in PROBES:
        toks = re.findall(r"\[[^\[\]]*\]|\.", x)
        if "".join(toks) != x:
            continue
        for comp in (False, True):
            for attr in (False, True):
                ctx.reset()
                a = _raw_decode(ctx, TokStr(toks), comp, attr)
                ctx.reset()
                b = _raw_decode(ctx, x, comp, attr)
                if repr(a) != repr(b):
                    FORCE_PLAIN = True
                    ctx.reset()
                    return {"faithful": False, "probe": x, "token_list": repr(a)[:160], "string": repr(b)[:160]}
    ctx.reset()
    return {"faithful": True, "probes": len(PROBES) * 4}


def _raw_decode(ctx, x, compatible, attribute):
    try:
        with warnings.catch_warnings():
            warnings.simplefilter("ignore")
            return ("ok", ctx.dec.decoder(x, compatible=compatible, attribute=attribute))
    except ctx.exc.DecoderError:
        return ("DecoderError",)
    except Exception as ex:  # noqa
        return ("exc", type(ex).__name__)


def run_decoder(ctx, x, compatible=False, attribute=False):
    """call the real selfies.decoder on a TokStr / SymStr / str.
    returns ('ok', result) | ('DecoderError', ex) | ('exc', ex)"""
    DecoderError = ctx.exc.DecoderError
    if FORCE_PLAIN and isinstance(x, TokStr):
        x = x.as_plain_str()
    try:
        with warnings.catch_warnings():
            warnings.simplefilter("ignore")
            out = ctx.dec.decoder(x, compatible=compatible, attribute=attribute)
        return ("ok", out)
    except DecoderError as ex:
        return ("DecoderError", ex)
    except Exception as ex:  # noqa: any other exception type is an observation, not an engine signal
        if isinstance(x, TokStr):
            # an exception other than DecoderError on a token-list input is re-examined on the plain string: either the
            # decoder no longer takes its input apart with selfies.split(".") + per-fragment token lists (which the M-TOK
            # model relies on; then every symbol is pinned: more paths, same semantics), or the exception is real and
            # shows again on the string
            s = x.as_plain_str()
            return run_decoder(ctx, s, compatible=compatible, attribute=attribute)
        if symstr.proxy_fault(ex) and not isinstance(x, str):
            # the proxy, not the decoder, raised (a str operation it does not imitate): pin the input and run again
            symstr.PROXY_FALLBACKS[0] += 1
            return run_decoder(ctx, symstr.pin(x), compatible=compatible, attribute=attribute)
        return ("exc", ex)


def concrete_selfies(model, toks):
    return "".join(model_value(model, t) if not isinstance(t, str) else t for t in toks)


def cap_expr(table, atomrec):
    k = table_key(atomrec)
    v = table[k] if k in table else table["?"]
    return zint(v)


def valence_bads(out, table):
    """(faults, bads): O-READ faults of a concrete output and z3 conditions
    'atom i exceeds its capacity' over the symbolic table"""
    if out == "":
        return [], [], None
    mol = read_smiles(out)
    bads = []
    for i, a in enumerate(mol.atoms):
        v = explicit_valence(mol, i)
        if v != int(v):
            bads.append(True)
            continue
        bads.append(cap_expr(table, a) < int(v))
    return mol.faults, bads, mol
