"""Decoder-side harness helpers (model M-TOK x M-TAB)."""
import warnings

import z3

from . import engine, symstr
from .ctx import table_model
from .engine import SymInt, zint
from .oread import read_smiles, table_key, explicit_valence
from .symstr import TokStr, make_tokens, model_value

A_CORE = ["[C]", "[=C]", "[#C]",
          "[Branch1]", "[=Branch1]", "[#Branch1]", "[Branch2]",
          "[Ring1]", "[=Ring1]", "[#Ring1]", "[Ring2]", "[epsilon]"]
A_DEC = A_CORE + ["[N]", "[=N]", "[#N]", "[NH1]", "[=O+1]"]
KEYS_CORE = ["C", "?"]
KEYS_DEC = ["C", "N", "O+1", "?"]


def run_decoder(ctx, x, compatible=False, attribute=False):
    """call the real selfies.decoder on a TokStr / SymStr / str.
    returns ('ok', result) | ('DecoderError', ex) | ('exc', ex)"""
    DecoderError = ctx.exc.DecoderError
    try:
        with warnings.catch_warnings():
            warnings.simplefilter("ignore")
            out = ctx.dec.decoder(x, compatible=compatible, attribute=attribute)
        return ("ok", out)
    except DecoderError as ex:
        return ("DecoderError", ex)
    except Exception as ex:  # noqa: any other exception type is an observation, not an engine signal
        if isinstance(x, TokStr):
            # an exception other than DecoderError on a token-list input is re-examined on the plain string: either the
            # decoder no longer takes its input apart with selfies.split(".") + per-fragment token lists (which the M-TOK
            # model relies on; then every symbol is pinned: more paths, same semantics), or the exception is real and
            # shows again on the string
            s = x.as_plain_str()
            return run_decoder(ctx, s, compatible=compatible, attribute=attribute)
        return ("exc", ex)


def concrete_selfies(model, toks):
    return "".join(model_value(model, t) if not isinstance(t, str) else t for t in toks)


def cap_expr(table, atomrec):
    k = table_key(atomrec)
    v = table[k] if k in table else table["?"]
    return zint(v)


def valence_bads(out, table):
    """(faults, bads): O-READ faults of a concrete output and z3 conditions
    'atom i exceeds its capacity' over the symbolic table"""
    if out == "":
        return [], [], None
    mol = read_smiles(out)
    bads = []
    for i, a in enumerate(mol.atoms):
        v = explicit_valence(mol, i)
        if v != int(v):
            bads.append(True)
            continue
        bads.append(cap_expr(table, a) < int(v))
    return mol.faults, bads, mol
