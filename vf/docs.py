"""Documented constants transcribed from docs/source/derivation.rst and CHANGELOG.md
(independent of the selfies package)."""
DOC_INDEX = ["[C]", "[Ring1]", "[Ring2]", "[Branch1]", "[=Branch1]", "[#Branch1]", "[Branch2]",
             "[=Branch2]", "[#Branch2]", "[O]", "[N]", "[=N]", "[=C]", "[#C]", "[S]", "[P]"]



def presets_doc():
    """the documented preset tables (README, docstring table of get_preset_constraints), transcribed independently"""
    d = {"H": 1, "F": 1, "Cl": 1, "Br": 1, "I": 1, "B": 3, "B+1": 2, "B-1": 4, "O": 2, "O+1": 3, "O-1": 1,
         "N": 3, "N+1": 4, "N-1": 2, "C": 4, "C+1": 3, "C-1": 3, "P": 5, "P+1": 4, "P-1": 6,
         "S": 6, "S+1": 5, "S-1": 5, "?": 8}
    o = dict(d)
    o.update({"S": 2, "S+1": 3, "S-1": 1, "P": 3, "P+1": 4, "P-1": 2})
    h = dict(d)
    h.update({"Cl": 7, "Br": 7, "I": 7, "N": 5})
    return {"default": d, "octet_rule": o, "hypervalent": h}


# ---------------------------------------------------------------------------
# O-MODERN: legacy (pre-v2) symbol -> documented modern equivalent (CHANGELOG v2.0.0),
# written without reference to selfies.compatibility.
import re as _re

_ORGANIC = {"B", "C", "N", "O", "S", "P", "F", "Cl", "Br", "I"}
_ATOM = _re.compile(r"^\[(?P<iso>[0-9]*)(?P<el>[A-Za-z][a-z]?)(?P<chi>@{0,2})(?P<h>(?:H[0-9]?)?)"
                    r"(?P<chg>(?:\++|-+|[+-][0-9]+)?)(?P<cls>(?::[0-9]+)?)\]$")
_ELEMENTS = set("""H He Li Be B C N O F Ne Na Mg Al Si P S Cl Ar K Ca Sc Ti V Cr Mn Fe Co Ni Cu Zn Ga Ge As Se Br
Kr Rb Sr Y Zr Nb Mo Tc Ru Rh Pd Ag Cd In Sn Sb Te I Xe Cs Ba Hf Ta W Re Os Ir Pt Au Hg Tl Pb Bi Po At Rn Fr Ra Rf Db
Sg Bh Hs Mt Ds Rg Cn Fl Lv La Ce Pr Nd Pm Sm Eu Gd Tb Dy Ho Er Tm Yb Lu Ac Th Pa U Np Pu Am Cm Bk Cf Es Fm Md No Lr""".split())
_AROMATIC = {"b", "c", "n", "o", "s", "p", "al", "si", "as", "se", "te"}


def standard_atom_text(text):
    """canonical v2 spelling of the bracket atom '[...]' (None if it is not a supported non-aromatic atom)"""
    m = _ATOM.match(text)
    if m is None:
        return None
    el = m.group("el")
    if el.islower() and el in _AROMATIC:
        return None  # aromatic atoms have no SELFIES symbol
    el = el.capitalize()
    if el not in _ELEMENTS:
        return None
    iso, chi, h, chg = m.group("iso"), m.group("chi"), m.group("h"), m.group("chg")
    hc = 0 if not h else (1 if h == "H" else int(h[1:]))
    if not chg:
        c = 0
    elif chg[-1].isdigit():
        c = int(chg[1:]) * (1 if chg[0] == "+" else -1)
    else:
        c = len(chg) * (1 if chg[0] == "+" else -1)
    out = (str(int(iso)) if iso else "") + el + chi
    if hc:
        out += "H%d" % hc
    elif not iso and not chi and c == 0 and el in _ORGANIC:
        out += "H0"
    if c:
        out += "%+d" % c
    return out


def is_legacy(sym):
    return bool(_re.match(r"^\[Branch[123]_[123]\]$", sym) or _re.match(r"^\[Expl[=#/\\]Ring[123]\]$", sym)
                or sym.endswith("expl]"))


def modernize(sym):
    m = _re.match(r"^\[Branch([123])_([123])\]$", sym)
    if m:
        return "[%sBranch%s]" % ({"1": "", "2": "=", "3": "#"}[m.group(2)], m.group(1))
    m = _re.match(r"^\[Expl([=#/\\])Ring([123])\]$", sym)
    if m:
        b = m.group(1)
        return "[%sRing%s]" % (b if b in "=#" else b + b, m.group(2))
    if sym.endswith("expl]") and len(sym) > 6:
        body = sym[1:-5]
        bond = ""
        if body[:1] in ("=", "#", "/", "\\"):
            bond, body = body[0], body[1:]
        std = standard_atom_text("[" + body + "]")
        if std is not None:
            return "[" + bond + std + "]"
    return sym
