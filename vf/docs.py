"""Documented constants transcribed from docs/source/derivation.rst and CHANGELOG.md
(independent of the selfies package)."""
DOC_INDEX = ["[C]", "[Ring1]", "[Ring2]", "[Branch1]", "[=Branch1]", "[#Branch1]", "[Branch2]",
             "[=Branch2]", "[#Branch2]", "[O]", "[N]", "[=N]", "[=C]", "[#C]", "[S]", "[P]"]
